#!/bin/bash
# build helper: show only diagnostics from the simulator crates
cd /verif/sim && cargo build --release 2>&1 | awk '/^(warning|error)/{blk=$0; keep=0; next_is_loc=1; print_blk=0} {buf[NR]=$0} /-->/{ if ($0 ~ /\/repo\//) skip=1; else skip=0 } {print}' | grep -v "^\s*$" > /tmp/build.log
grep -nE "^error" -A12 /tmp/build.log | grep -v "/repo/" | head -${1:-80}
tail -1 /tmp/build.log
