//! Stand-in for `rayon` inside the simulator: `into_par_iter().map(f).collect()` runs
//! every item on its own simulated (shuttle) scoped thread and joins them in order;
//! `max_num_threads()` is the run's worker-count knob. Real rayon runs at most
//! pool-size items at once; "all items concurrent, in any order" is a superset of
//! those interleavings (items never wait on each other) and includes the sequential ones.

pub fn max_num_threads() -> usize {
    weechess_simrt::knobs::rayon_threads()
}

/// Size of the (simulated) global pool: the same knob.
pub fn current_num_threads() -> usize {
    weechess_simrt::knobs::rayon_threads()
}

pub mod prelude {
    pub use crate::IntoParallelIterator;
}

pub trait IntoParallelIterator {
    type Item: Send;
    fn into_par_iter(self) -> ParIter<Self::Item>;
}

impl<T: Send> IntoParallelIterator for Vec<T> {
    type Item = T;
    fn into_par_iter(self) -> ParIter<T> {
        ParIter { items: self }
    }
}

pub struct ParIter<T> {
    items: Vec<T>,
}

pub struct ParMap<T, F> {
    items: Vec<T>,
    f: F,
}

impl<T: Send> ParIter<T> {
    pub fn map<R, F>(self, f: F) -> ParMap<T, F>
    where
        F: Fn(T) -> R + Sync + Send,
        R: Send,
    {
        ParMap { items: self.items, f }
    }
}

impl<T: Send, F> ParMap<T, F> {
    pub fn collect<C, R>(self) -> C
    where
        F: Fn(T) -> R + Sync + Send,
        R: Send,
        C: FromIterator<R>,
    {
        let f = &self.f;
        let n = self.items.len();
        weechess_simrt::world::with(|r| {
            r.workers_spawned += n;
            if n > r.max_workers_in_iteration {
                r.max_workers_in_iteration = n;
            }
        });
        let results: Vec<R> = shuttle::thread::scope(|s| {
            let handles: Vec<_> = self
                .items
                .into_iter()
                .enumerate()
                .map(|(i, item)| {
                    s.spawn(move || {
                        weechess_simrt::world::register_worker(i);
                        f(item)
                    })
                })
                .collect();
            handles
                .into_iter()
                .map(|h| match h.join() {
                    Ok(r) => r,
                    Err(e) => std::panic::resume_unwind(e),
                })
                .collect()
        });
        results.into_iter().collect()
    }
}
