//! refchess — deliberately naive, independent rules of chess (8x8 mailbox).
//!
//! Written for /verif only; shares nothing with the repository under test (no bitboards,
//! no magic tables). Validated against published perft counts (`selftest`).

pub mod solve;
pub mod tb;

pub const EMPTY: u8 = 0;
pub const PAWN: u8 = 1;
pub const KNIGHT: u8 = 2;
pub const BISHOP: u8 = 3;
pub const ROOK: u8 = 4;
pub const QUEEN: u8 = 5;
pub const KING: u8 = 6;
pub const BLACK_BIT: u8 = 8;

pub const WK: u8 = 1;
pub const WQ: u8 = 2;
pub const BK: u8 = 4;
pub const BQ: u8 = 8;

#[derive(Clone, Copy, PartialEq, Eq, Hash, Debug, PartialOrd, Ord)]
pub struct Mv {
    pub from: u8,
    pub to: u8,
    /// 0 or KNIGHT..QUEEN
    pub promo: u8,
}

impl Mv {
    pub fn uci(&self) -> String {
        let mut s = String::new();
        s.push_str(&sq_name(self.from));
        s.push_str(&sq_name(self.to));
        match self.promo {
            KNIGHT => s.push('n'),
            BISHOP => s.push('b'),
            ROOK => s.push('r'),
            QUEEN => s.push('q'),
            _ => {}
        }
        s
    }

    pub fn parse(s: &str) -> Option<Mv> {
        let b = s.as_bytes();
        if b.len() < 4 || b.len() > 5 || !s.is_ascii() {
            return None;
        }
        let from = parse_sq(&s[0..2])?;
        let to = parse_sq(&s[2..4])?;
        let promo = if b.len() == 5 {
            match b[4] {
                b'n' => KNIGHT,
                b'b' => BISHOP,
                b'r' => ROOK,
                b'q' => QUEEN,
                _ => return None,
            }
        } else {
            0
        };
        Some(Mv { from, to, promo })
    }
}

pub fn sq_name(sq: u8) -> String {
    let f = (b'a' + (sq % 8)) as char;
    let r = (b'1' + (sq / 8)) as char;
    format!("{}{}", f, r)
}

pub fn parse_sq(s: &str) -> Option<u8> {
    let b = s.as_bytes();
    if b.len() != 2 || !(b'a'..=b'h').contains(&b[0]) || !(b'1'..=b'8').contains(&b[1]) {
        return None;
    }
    Some((b[1] - b'1') * 8 + (b[0] - b'a'))
}

#[derive(Clone, PartialEq, Eq, Hash, Debug)]
pub struct Pos {
    pub board: [u8; 64],
    /// 0 = white to move, 1 = black to move
    pub side: u8,
    pub castling: u8,
    pub ep: Option<u8>,
    pub halfmove: u32,
    pub fullmove: u32,
}

pub const START_FEN: &str = "rnbqkbnr/pppppppp/8/8/8/8/PPPPPPPP/RNBQKBNR w KQkq - 0 1";

fn color_of(p: u8) -> u8 {
    if p & BLACK_BIT != 0 {
        1
    } else {
        0
    }
}

fn kind_of(p: u8) -> u8 {
    p & 7
}

const KNIGHT_D: [(i8, i8); 8] = [(1, 2), (2, 1), (2, -1), (1, -2), (-1, -2), (-2, -1), (-2, 1), (-1, 2)];
const KING_D: [(i8, i8); 8] = [(1, 0), (1, 1), (0, 1), (-1, 1), (-1, 0), (-1, -1), (0, -1), (1, -1)];
const ROOK_D: [(i8, i8); 4] = [(1, 0), (0, 1), (-1, 0), (0, -1)];
const BISHOP_D: [(i8, i8); 4] = [(1, 1), (-1, 1), (-1, -1), (1, -1)];

fn off(sq: u8, df: i8, dr: i8) -> Option<u8> {
    let f = (sq % 8) as i8 + df;
    let r = (sq / 8) as i8 + dr;
    if (0..8).contains(&f) && (0..8).contains(&r) {
        Some((r * 8 + f) as u8)
    } else {
        None
    }
}

impl Pos {
    pub fn start() -> Pos {
        Pos::from_fen(START_FEN).unwrap()
    }

    pub fn from_fen(fen: &str) -> Option<Pos> {
        let parts: Vec<&str> = fen.split_whitespace().collect();
        if parts.len() < 4 {
            return None;
        }
        let mut board = [EMPTY; 64];
        let ranks: Vec<&str> = parts[0].split('/').collect();
        if ranks.len() != 8 {
            return None;
        }
        for (i, rank) in ranks.iter().enumerate() {
            let r = 7 - i as u8;
            let mut f = 0u8;
            for c in rank.chars() {
                if let Some(d) = c.to_digit(10) {
                    if d == 0 || f as u32 + d > 8 {
                        return None;
                    }
                    f += d as u8;
                } else {
                    let kind = match c.to_ascii_lowercase() {
                        'p' => PAWN,
                        'n' => KNIGHT,
                        'b' => BISHOP,
                        'r' => ROOK,
                        'q' => QUEEN,
                        'k' => KING,
                        _ => return None,
                    };
                    if f >= 8 {
                        return None;
                    }
                    board[(r * 8 + f) as usize] = kind | if c.is_ascii_lowercase() { BLACK_BIT } else { 0 };
                    f += 1;
                }
            }
            if f != 8 {
                return None;
            }
        }
        let side = match parts[1] {
            "w" => 0,
            "b" => 1,
            _ => return None,
        };
        let mut castling = 0;
        for c in parts[2].chars() {
            match c {
                'K' => castling |= WK,
                'Q' => castling |= WQ,
                'k' => castling |= BK,
                'q' => castling |= BQ,
                '-' => {}
                _ => return None,
            }
        }
        let ep = if parts[3] == "-" { None } else { Some(parse_sq(parts[3])?) };
        let halfmove = parts.get(4).and_then(|s| s.parse().ok()).unwrap_or(0);
        let fullmove = parts.get(5).and_then(|s| s.parse().ok()).unwrap_or(1);
        Some(Pos { board, side, castling, ep, halfmove, fullmove })
    }

    pub fn placement(&self) -> String {
        let mut s = String::new();
        for r in (0..8).rev() {
            let mut empty = 0;
            for f in 0..8 {
                let p = self.board[r * 8 + f];
                if p == EMPTY {
                    empty += 1;
                } else {
                    if empty > 0 {
                        s.push_str(&empty.to_string());
                        empty = 0;
                    }
                    let c = match kind_of(p) {
                        PAWN => 'p',
                        KNIGHT => 'n',
                        BISHOP => 'b',
                        ROOK => 'r',
                        QUEEN => 'q',
                        _ => 'k',
                    };
                    s.push(if color_of(p) == 0 { c.to_ascii_uppercase() } else { c });
                }
            }
            if empty > 0 {
                s.push_str(&empty.to_string());
            }
            if r > 0 {
                s.push('/');
            }
        }
        s
    }

    pub fn castling_str(&self) -> String {
        let mut s = String::new();
        if self.castling & WK != 0 {
            s.push('K');
        }
        if self.castling & WQ != 0 {
            s.push('Q');
        }
        if self.castling & BK != 0 {
            s.push('k');
        }
        if self.castling & BQ != 0 {
            s.push('q');
        }
        if s.is_empty() {
            s.push('-');
        }
        s
    }

    pub fn fen(&self) -> String {
        format!(
            "{} {} {} {} {} {}",
            self.placement(),
            if self.side == 0 { "w" } else { "b" },
            self.castling_str(),
            self.ep.map(sq_name).unwrap_or_else(|| "-".to_string()),
            self.halfmove,
            self.fullmove
        )
    }

    /// First four FEN fields: everything the rules of move legality depend on.
    pub fn fen4(&self) -> String {
        format!(
            "{} {} {} {}",
            self.placement(),
            if self.side == 0 { "w" } else { "b" },
            self.castling_str(),
            self.ep.map(sq_name).unwrap_or_else(|| "-".to_string()),
        )
    }

    pub fn king_sq(&self, color: u8) -> Option<u8> {
        let k = KING | if color == 1 { BLACK_BIT } else { 0 };
        (0..64u8).find(|&s| self.board[s as usize] == k)
    }

    /// Is `sq` attacked by any piece of colour `by`?
    pub fn attacked(&self, sq: u8, by: u8) -> bool {
        let cb = if by == 1 { BLACK_BIT } else { 0 };
        // pawns: a white pawn on (f-1, r-1) or (f+1, r-1) attacks sq
        let dr = if by == 0 { -1 } else { 1 };
        for df in [-1i8, 1] {
            if let Some(s) = off(sq, df, dr) {
                if self.board[s as usize] == (PAWN | cb) {
                    return true;
                }
            }
        }
        for (df, dr) in KNIGHT_D {
            if let Some(s) = off(sq, df, dr) {
                if self.board[s as usize] == (KNIGHT | cb) {
                    return true;
                }
            }
        }
        for (df, dr) in KING_D {
            if let Some(s) = off(sq, df, dr) {
                if self.board[s as usize] == (KING | cb) {
                    return true;
                }
            }
        }
        for (df, dr) in ROOK_D {
            let mut cur = sq;
            while let Some(s) = off(cur, df, dr) {
                let p = self.board[s as usize];
                if p != EMPTY {
                    if p == (ROOK | cb) || p == (QUEEN | cb) {
                        return true;
                    }
                    break;
                }
                cur = s;
            }
        }
        for (df, dr) in BISHOP_D {
            let mut cur = sq;
            while let Some(s) = off(cur, df, dr) {
                let p = self.board[s as usize];
                if p != EMPTY {
                    if p == (BISHOP | cb) || p == (QUEEN | cb) {
                        return true;
                    }
                    break;
                }
                cur = s;
            }
        }
        false
    }

    /// Does the piece standing on `from` (of the side not to move) attack `sq`?
    pub fn attacked_by_piece_at(&self, sq: u8, from: u8) -> bool {
        let pc = self.board[from as usize];
        if pc == EMPTY {
            return false;
        }
        let by = if pc & BLACK_BIT != 0 { 1 } else { 0 };
        // direct geometry: can `pc` on `from` reach `sq` given the real occupancy?
        let kind = pc & 7;
        let (ff, fr, tf, tr) = ((from % 8) as i8, (from / 8) as i8, (sq % 8) as i8, (sq / 8) as i8);
        let (df, dr) = (tf - ff, tr - fr);
        match kind {
            PAWN => {
                let dir = if by == 0 { 1 } else { -1 };
                dr == dir && df.abs() == 1
            }
            KNIGHT => (df.abs() == 1 && dr.abs() == 2) || (df.abs() == 2 && dr.abs() == 1),
            KING => df.abs() <= 1 && dr.abs() <= 1 && (df != 0 || dr != 0),
            _ => {
                let straight = df == 0 || dr == 0;
                let diag = df.abs() == dr.abs();
                if (df == 0 && dr == 0) || !(straight || diag) {
                    return false;
                }
                if straight && !(kind == ROOK || kind == QUEEN) {
                    return false;
                }
                if diag && !straight && !(kind == BISHOP || kind == QUEEN) {
                    return false;
                }
                let (sf, sr) = (df.signum(), dr.signum());
                let (mut f, mut r) = (ff + sf, fr + sr);
                while (f, r) != (tf, tr) {
                    if self.board[(r * 8 + f) as usize] != EMPTY {
                        return false;
                    }
                    f += sf;
                    r += sr;
                }
                true
            }
        }
    }

    /// Number of pieces of the side not to move that attack the king of the side to move.
    pub fn count_checkers(&self) -> usize {
        let Some(k) = self.king_sq(self.side) else { return 0 };
        (0..64u8)
            .filter(|&s| {
                let pc = self.board[s as usize];
                pc != EMPTY && (if pc & BLACK_BIT != 0 { 1 } else { 0 }) != self.side && self.attacked_by_piece_at(k, s)
            })
            .count()
    }

    pub fn in_check(&self) -> bool {
        match self.king_sq(self.side) {
            Some(k) => self.attacked(k, 1 - self.side),
            None => false,
        }
    }

    fn pseudo(&self, out: &mut Vec<Mv>) {
        let us = self.side;
        let them = 1 - us;
        for sq in 0..64u8 {
            let p = self.board[sq as usize];
            if p == EMPTY || color_of(p) != us {
                continue;
            }
            match kind_of(p) {
                PAWN => {
                    let dr: i8 = if us == 0 { 1 } else { -1 };
                    let start_rank = if us == 0 { 1 } else { 6 };
                    let promo_rank = if us == 0 { 7 } else { 0 };
                    let mut push = |from: u8, to: u8, out: &mut Vec<Mv>| {
                        if to / 8 == promo_rank {
                            for pr in [QUEEN, ROOK, BISHOP, KNIGHT] {
                                out.push(Mv { from, to, promo: pr });
                            }
                        } else {
                            out.push(Mv { from, to, promo: 0 });
                        }
                    };
                    if let Some(one) = off(sq, 0, dr) {
                        if self.board[one as usize] == EMPTY {
                            push(sq, one, out);
                            if sq / 8 == start_rank {
                                if let Some(two) = off(one, 0, dr) {
                                    if self.board[two as usize] == EMPTY {
                                        out.push(Mv { from: sq, to: two, promo: 0 });
                                    }
                                }
                            }
                        }
                    }
                    for df in [-1i8, 1] {
                        if let Some(t) = off(sq, df, dr) {
                            let q = self.board[t as usize];
                            if q != EMPTY && color_of(q) == them {
                                push(sq, t, out);
                            } else if q == EMPTY && self.ep == Some(t) {
                                // en passant: the captured pawn must actually be there
                                if let Some(cap) = off(t, 0, -dr) {
                                    let want = PAWN | if them == 1 { BLACK_BIT } else { 0 };
                                    if self.board[cap as usize] == want {
                                        out.push(Mv { from: sq, to: t, promo: 0 });
                                    }
                                }
                            }
                        }
                    }
                }
                KNIGHT => {
                    for (df, dr) in KNIGHT_D {
                        if let Some(t) = off(sq, df, dr) {
                            let q = self.board[t as usize];
                            if q == EMPTY || color_of(q) == them {
                                out.push(Mv { from: sq, to: t, promo: 0 });
                            }
                        }
                    }
                }
                KING => {
                    for (df, dr) in KING_D {
                        if let Some(t) = off(sq, df, dr) {
                            let q = self.board[t as usize];
                            if q == EMPTY || color_of(q) == them {
                                out.push(Mv { from: sq, to: t, promo: 0 });
                            }
                        }
                    }
                    // castling
                    let (home, kr, qr, rook) = if us == 0 { (4u8, WK, WQ, ROOK) } else { (60u8, BK, BQ, ROOK | BLACK_BIT) };
                    if sq == home && !self.attacked(home, them) {
                        if self.castling & kr != 0
                            && self.board[(home + 3) as usize] == rook
                            && self.board[(home + 1) as usize] == EMPTY
                            && self.board[(home + 2) as usize] == EMPTY
                            && !self.attacked(home + 1, them)
                            && !self.attacked(home + 2, them)
                        {
                            out.push(Mv { from: home, to: home + 2, promo: 0 });
                        }
                        if self.castling & qr != 0
                            && self.board[(home - 4) as usize] == rook
                            && self.board[(home - 1) as usize] == EMPTY
                            && self.board[(home - 2) as usize] == EMPTY
                            && self.board[(home - 3) as usize] == EMPTY
                            && !self.attacked(home - 1, them)
                            && !self.attacked(home - 2, them)
                        {
                            out.push(Mv { from: home, to: home - 2, promo: 0 });
                        }
                    }
                }
                k => {
                    let dirs: &[(i8, i8)] = match k {
                        BISHOP => &BISHOP_D,
                        ROOK => &ROOK_D,
                        _ => &KING_D,
                    };
                    for &(df, dr) in dirs {
                        let mut cur = sq;
                        while let Some(t) = off(cur, df, dr) {
                            let q = self.board[t as usize];
                            if q == EMPTY {
                                out.push(Mv { from: sq, to: t, promo: 0 });
                            } else {
                                if color_of(q) == them {
                                    out.push(Mv { from: sq, to: t, promo: 0 });
                                }
                                break;
                            }
                            cur = t;
                        }
                    }
                }
            }
        }
    }

    /// Applies a move without checking legality (the move must be pseudo-legal).
    pub fn make(&self, m: Mv) -> Pos {
        let mut n = self.clone();
        let p = self.board[m.from as usize];
        let us = self.side;
        let captured = self.board[m.to as usize];
        n.board[m.from as usize] = EMPTY;
        n.board[m.to as usize] = p;
        let mut is_capture = captured != EMPTY;
        n.ep = None;
        match kind_of(p) {
            PAWN => {
                let dr: i8 = if us == 0 { 1 } else { -1 };
                if captured == EMPTY && (m.from % 8) != (m.to % 8) {
                    // en passant
                    if let Some(cap) = off(m.to, 0, -dr) {
                        n.board[cap as usize] = EMPTY;
                    }
                    is_capture = true;
                }
                if (m.to as i8 - m.from as i8).abs() == 16 {
                    n.ep = off(m.from, 0, dr);
                }
                if m.promo != 0 {
                    n.board[m.to as usize] = m.promo | if us == 1 { BLACK_BIT } else { 0 };
                }
            }
            KING => {
                if (m.to as i8 - m.from as i8).abs() == 2 && m.from / 8 == m.to / 8 {
                    let rank = m.from / 8;
                    if m.to > m.from {
                        let rook = n.board[(rank * 8 + 7) as usize];
                        n.board[(rank * 8 + 7) as usize] = EMPTY;
                        n.board[(rank * 8 + 5) as usize] = rook;
                    } else {
                        let rook = n.board[(rank * 8) as usize];
                        n.board[(rank * 8) as usize] = EMPTY;
                        n.board[(rank * 8 + 3) as usize] = rook;
                    }
                }
                n.castling &= if us == 0 { !(WK | WQ) } else { !(BK | BQ) };
            }
            _ => {}
        }
        for sq in [m.from, m.to] {
            match sq {
                0 => n.castling &= !WQ,
                7 => n.castling &= !WK,
                56 => n.castling &= !BQ,
                63 => n.castling &= !BK,
                _ => {}
            }
        }
        n.halfmove = if is_capture || kind_of(p) == PAWN { 0 } else { self.halfmove.saturating_add(1) };
        if us == 1 {
            n.fullmove = self.fullmove.saturating_add(1);
        }
        n.side = 1 - us;
        n
    }

    pub fn legal_moves(&self) -> Vec<Mv> {
        let mut ps = Vec::with_capacity(48);
        self.pseudo(&mut ps);
        let us = self.side;
        ps.retain(|&m| {
            let n = self.make(m);
            match n.king_sq(us) {
                Some(k) => !n.attacked(k, 1 - us),
                None => false,
            }
        });
        ps
    }

    pub fn is_legal(&self, m: Mv) -> bool {
        self.legal_moves().contains(&m)
    }

    pub fn is_checkmate(&self) -> bool {
        self.in_check() && self.legal_moves().is_empty()
    }

    pub fn is_stalemate(&self) -> bool {
        !self.in_check() && self.legal_moves().is_empty()
    }

    pub fn piece_count(&self) -> usize {
        self.board.iter().filter(|&&p| p != EMPTY).count()
    }

    /// Basic sanity: one king each, side not to move not in check, no pawns on back ranks.
    pub fn is_sane(&self) -> bool {
        let wk = self.board.iter().filter(|&&p| p == KING).count();
        let bk = self.board.iter().filter(|&&p| p == (KING | BLACK_BIT)).count();
        if wk != 1 || bk != 1 {
            return false;
        }
        for f in 0..8 {
            for r in [0usize, 7] {
                if kind_of(self.board[r * 8 + f]) == PAWN {
                    return false;
                }
            }
        }
        let them = 1 - self.side;
        let k = self.king_sq(them).unwrap();
        !self.attacked(k, self.side)
    }

    pub fn perft(&self, depth: u32) -> u64 {
        if depth == 0 {
            return 1;
        }
        let ms = self.legal_moves();
        if depth == 1 {
            return ms.len() as u64;
        }
        ms.iter().map(|&m| self.make(m).perft(depth - 1)).sum()
    }
}

/// Published perft counts (chessprogramming.org "Perft Results").
pub const PERFT_SUITE: &[(&str, &[u64])] = &[
    (START_FEN, &[20, 400, 8902, 197281]),
    ("r3k2r/p1ppqpb1/bn2pnp1/3PN3/1p2P3/2N2Q1p/PPPBBPPP/R3K2R w KQkq - 0 1", &[48, 2039, 97862]),
    ("8/2p5/3p4/KP5r/1R3p1k/8/4P1P1/8 w - - 0 1", &[14, 191, 2812, 43238, 674624]),
    ("r3k2r/Pppp1ppp/1b3nbN/nP6/BBP1P3/q4N2/Pp1P2PP/R2Q1RK1 w kq - 0 1", &[6, 264, 9467, 422333]),
    ("rnbq1k1r/pp1Pbppp/2p5/8/2B5/8/PPP1NnPP/RNBQK2R w KQ - 1 8", &[44, 1486, 62379]),
    ("r4rk1/1pp1qppp/p1np1n2/2b1p1B1/2B1P1b1/P1NP1N2/1PP1QPPP/R4RK1 w - - 0 10", &[46, 2079, 89890]),
];

pub fn selftest() -> Result<u64, String> {
    let mut total = 0;
    for (fen, counts) in PERFT_SUITE {
        let p = Pos::from_fen(fen).ok_or_else(|| format!("bad fen {}", fen))?;
        if p.fen() != *fen {
            return Err(format!("fen round trip: {} -> {}", fen, p.fen()));
        }
        for (i, &want) in counts.iter().enumerate() {
            let got = p.perft(i as u32 + 1);
            if got != want {
                return Err(format!("perft({}) of {}: got {}, published {}", i + 1, fen, got, want));
            }
            total += got;
        }
    }
    Ok(total)
}
