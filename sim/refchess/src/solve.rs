//! Bounded exhaustive AND/OR solver: "the side to move can force checkmate within n plies",
//! optionally in the modified game where *entering* any position of a given set counts
//! as a draw (that is what the engine's history rule implements).

use crate::*;
use std::collections::HashSet;

#[derive(Clone, Copy, Debug, PartialEq, Eq)]
pub enum Answer {
    Yes,
    No,
    Undecided,
}

/// Key identifying a position for the "already seen" rule: placement + side to move +
/// castling + en-passant (first four FEN fields).
pub fn key(p: &Pos) -> String {
    p.fen4()
}

pub struct Solver<'a> {
    pub drawn: &'a HashSet<String>,
    pub budget: u64,
    pub exhausted: bool,
}

impl<'a> Solver<'a> {
    pub fn new(drawn: &'a HashSet<String>, budget: u64) -> Self {
        Self { drawn, budget, exhausted: false }
    }

    fn spend(&mut self) -> bool {
        if self.budget == 0 {
            self.exhausted = true;
            return false;
        }
        self.budget -= 1;
        true
    }

    /// Side to move in `p` can force mate within `plies` plies (plies >= 1).
    pub fn attacker(&mut self, p: &Pos, plies: u32) -> bool {
        if plies == 0 || !self.spend() {
            return false;
        }
        for m in p.legal_moves() {
            let c = p.make(m);
            if !self.drawn.is_empty() && self.drawn.contains(&key(&c)) {
                continue;
            }
            let replies = c.legal_moves();
            if replies.is_empty() {
                if c.in_check() {
                    return true;
                }
                continue; // stalemate
            }
            if plies >= 3 && self.defender(&c, &replies, plies - 1) {
                return true;
            }
            if self.exhausted {
                return false;
            }
        }
        false
    }

    /// Every reply of the side to move in `c` loses to a mate within `plies - 1` more plies.
    fn defender(&mut self, c: &Pos, replies: &[Mv], plies: u32) -> bool {
        if !self.spend() {
            return false;
        }
        for &r in replies {
            let g = c.make(r);
            if !self.drawn.is_empty() && self.drawn.contains(&key(&g)) {
                return false;
            }
            if !self.attacker(&g, plies - 1) {
                return false;
            }
        }
        true
    }
}

/// Can the side to move force mate within `plies` plies?
pub fn forced_mate(p: &Pos, plies: u32, drawn: &HashSet<String>, budget: u64) -> Answer {
    let mut s = Solver::new(drawn, budget);
    let r = s.attacker(p, plies);
    if s.exhausted {
        Answer::Undecided
    } else if r {
        Answer::Yes
    } else {
        Answer::No
    }
}

/// Smallest odd n <= max_plies such that the side to move can force mate within n plies.
pub fn mate_distance(p: &Pos, max_plies: u32, drawn: &HashSet<String>, budget: u64) -> Result<Option<u32>, ()> {
    let mut n = 1;
    while n <= max_plies {
        match forced_mate(p, n, drawn, budget) {
            Answer::Yes => return Ok(Some(n)),
            Answer::No => {}
            Answer::Undecided => return Err(()),
        }
        n += 2;
    }
    Ok(None)
}

/// Does playing `m` keep a forced mate within `plies_total` plies (counting `m` itself)?
pub fn move_keeps_mate(p: &Pos, m: Mv, plies_total: u32, drawn: &HashSet<String>, budget: u64) -> Answer {
    let c = p.make(m);
    if !drawn.is_empty() && drawn.contains(&key(&c)) {
        return Answer::No;
    }
    let replies = c.legal_moves();
    if replies.is_empty() {
        return if c.in_check() { Answer::Yes } else { Answer::No };
    }
    if plies_total < 3 {
        return Answer::No;
    }
    let mut s = Solver::new(drawn, budget);
    let r = s.defender(&c, &replies, plies_total - 1);
    if s.exhausted {
        Answer::Undecided
    } else if r {
        Answer::Yes
    } else {
        Answer::No
    }
}
