//! 3-man tablebases (KQK, KRK) by retrograde analysis over the naive rules of this crate.
//! KBK / KNK / KK are draws by material. Values are distance-to-mate in plies.

use crate::*;

#[derive(Clone, Copy, Debug, PartialEq, Eq)]
pub enum Val {
    /// side to move mates in n plies (n odd)
    Win(u32),
    /// side to move is mated in n plies (n even; 0 = is checkmated)
    Loss(u32),
    Draw,
}

const ILLEGAL: i16 = i16::MIN;

pub struct Table {
    piece: u8,
    val: Vec<i16>,
}

pub struct Tb {
    kqk: Table,
    krk: Table,
}

fn idx(wk: u8, bk: u8, x: u8, stm: u8) -> usize {
    (((wk as usize * 64 + bk as usize) * 64 + x as usize) << 1) | stm as usize
}

fn build_pos(piece: u8, wk: u8, bk: u8, x: u8, stm: u8) -> Option<Pos> {
    if wk == bk || wk == x || bk == x {
        return None;
    }
    let mut board = [EMPTY; 64];
    board[wk as usize] = KING;
    board[bk as usize] = KING | BLACK_BIT;
    board[x as usize] = piece;
    let p = Pos { board, side: stm, castling: 0, ep: None, halfmove: 0, fullmove: 1 };
    // kings adjacent or side not to move in check => illegal
    let (wf, wr, bf, br) = ((wk % 8) as i8, (wk / 8) as i8, (bk % 8) as i8, (bk / 8) as i8);
    if (wf - bf).abs() <= 1 && (wr - br).abs() <= 1 {
        return None;
    }
    if !p.is_sane() {
        return None;
    }
    Some(p)
}

const SUCC_DRAW: u32 = u32::MAX;

fn pos_index(p: &Pos, piece: u8) -> Option<usize> {
    let mut wk = None;
    let mut bk = None;
    let mut x = None;
    for s in 0..64u8 {
        let q = p.board[s as usize];
        if q == KING {
            wk = Some(s);
        } else if q == (KING | BLACK_BIT) {
            bk = Some(s);
        } else if q == piece {
            x = Some(s);
        } else if q != EMPTY {
            return None;
        }
    }
    Some(idx(wk?, bk?, x?, p.side))
}

impl Table {
    fn build(piece: u8) -> Table {
        let n = 64 * 64 * 64 * 2;
        let mut val = vec![ILLEGAL; n];
        let mut succ_off = vec![0u32; n + 1];
        // successors, computed in parallel by chunks of wk
        let chunks: Vec<(Vec<i16>, Vec<Vec<u32>>)> = std::thread::scope(|s| {
            let hs: Vec<_> = (0..16usize)
                .map(|c| {
                    s.spawn(move || {
                        let mut v = Vec::new();
                        let mut su = Vec::new();
                        for wk in (c * 4)..(c * 4 + 4) {
                            for bk in 0..64u8 {
                                for x in 0..64u8 {
                                    for stm in 0..2u8 {
                                        match build_pos(piece, wk as u8, bk, x, stm) {
                                            None => {
                                                v.push(ILLEGAL);
                                                su.push(Vec::new());
                                            }
                                            Some(p) => {
                                                let ms = p.legal_moves();
                                                let mut list = Vec::with_capacity(ms.len());
                                                for m in ms.iter() {
                                                    let q = p.make(*m);
                                                    match pos_index(&q, piece) {
                                                        Some(i) if q.piece_count() == 3 => list.push(i as u32),
                                                        _ => list.push(SUCC_DRAW),
                                                    }
                                                }
                                                if ms.is_empty() {
                                                    v.push(if p.in_check() { -1 } else { 0 });
                                                } else {
                                                    v.push(0);
                                                }
                                                su.push(list);
                                            }
                                        }
                                    }
                                }
                            }
                        }
                        (v, su)
                    })
                })
                .collect();
            hs.into_iter().map(|h| h.join().unwrap()).collect()
        });
        let mut succ: Vec<u32> = Vec::new();
        let mut i = 0usize;
        let mut has_moves = vec![false; n];
        for (v, su) in chunks {
            for (vv, list) in v.into_iter().zip(su.into_iter()) {
                val[i] = vv;
                succ_off[i] = succ.len() as u32;
                has_moves[i] = !list.is_empty();
                succ.extend(list);
                i += 1;
            }
        }
        succ_off[n] = succ.len() as u32;
        // retrograde rounds
        let mut round: i16 = 1;
        let mut idle = 0;
        while idle < 2 && round < 200 {
            let mut changed = false;
            let mut assign = Vec::new();
            for i in 0..n {
                if val[i] != 0 || !has_moves[i] {
                    continue;
                }
                let stm = i & 1;
                let ss = &succ[succ_off[i] as usize..succ_off[i + 1] as usize];
                if stm == 0 {
                    if round % 2 == 1 && ss.iter().any(|&s| s != SUCC_DRAW && val[s as usize] == -round) {
                        assign.push((i, round));
                    }
                } else if round % 2 == 0
                    && ss.iter().all(|&s| s != SUCC_DRAW && val[s as usize] > 0)
                {
                    assign.push((i, -(round + 1)));
                }
            }
            for (i, v) in assign {
                val[i] = v;
                changed = true;
            }
            if changed {
                idle = 0;
            } else {
                idle += 1;
            }
            round += 1;
        }
        Table { piece, val }
    }

    fn probe_white_strong(&self, p: &Pos) -> Option<Val> {
        let i = pos_index(p, self.piece)?;
        let v = self.val[i];
        if v == ILLEGAL {
            return None;
        }
        Some(if v > 0 {
            Val::Win(v as u32)
        } else if v < 0 {
            Val::Loss((-v - 1) as u32)
        } else {
            Val::Draw
        })
    }

    pub fn max_dtm(&self) -> i16 {
        self.val.iter().copied().filter(|&v| v != ILLEGAL).map(|v| v.abs()).max().unwrap_or(0)
    }
}

/// Flip ranks and swap colours (so that a black strong side becomes white).
pub fn mirror(p: &Pos) -> Pos {
    let mut board = [EMPTY; 64];
    for s in 0..64usize {
        let q = p.board[s];
        if q != EMPTY {
            let t = (7 - s / 8) * 8 + s % 8;
            board[t] = q ^ BLACK_BIT;
        }
    }
    let mut castling = 0;
    if p.castling & WK != 0 {
        castling |= BK;
    }
    if p.castling & WQ != 0 {
        castling |= BQ;
    }
    if p.castling & BK != 0 {
        castling |= WK;
    }
    if p.castling & BQ != 0 {
        castling |= WQ;
    }
    Pos {
        board,
        side: 1 - p.side,
        castling,
        ep: p.ep.map(|s| (7 - s / 8) * 8 + s % 8),
        halfmove: p.halfmove,
        fullmove: p.fullmove,
    }
}

impl Tb {
    pub fn build() -> Tb {
        let (kqk, krk) = std::thread::scope(|s| {
            let a = s.spawn(|| Table::build(QUEEN));
            let b = s.spawn(|| Table::build(ROOK));
            (a.join().unwrap(), b.join().unwrap())
        });
        Tb { kqk, krk }
    }

    pub fn max_dtm(&self) -> (i16, i16) {
        (self.kqk.max_dtm(), self.krk.max_dtm())
    }

    /// Exact game-theoretic value for the side to move, if the position is covered:
    /// at most 3 men, no castling rights, no en-passant square.
    pub fn probe(&self, p: &Pos) -> Option<Val> {
        if p.castling != 0 || p.ep.is_some() || !p.is_sane() {
            return None;
        }
        let n = p.piece_count();
        if n == 2 {
            return Some(Val::Draw);
        }
        if n != 3 {
            return None;
        }
        let extra = p.board.iter().copied().find(|&q| q != EMPTY && (q & 7) != KING)?;
        match extra & 7 {
            BISHOP | KNIGHT => {
                // no checkmate is possible with a lone minor piece
                Some(Val::Draw)
            }
            QUEEN | ROOK => {
                let white_strong = extra & BLACK_BIT == 0;
                let q = if white_strong { p.clone() } else { mirror(p) };
                let t = if extra & 7 == QUEEN { &self.kqk } else { &self.krk };
                t.probe_white_strong(&q)
            }
            _ => None,
        }
    }

    /// Does the side to move have a forced mate, and within how many plies?
    pub fn win_in(&self, p: &Pos) -> Option<Option<u32>> {
        self.probe(p).map(|v| match v {
            Val::Win(n) => Some(n),
            _ => None,
        })
    }

    /// After `m` (legal in `p`), is the mover still winning (the opponent is lost)?
    pub fn move_keeps_win(&self, p: &Pos, m: Mv) -> Option<bool> {
        let q = p.make(m);
        if q.piece_count() < 3 && p.piece_count() == 3 {
            // captured the last piece: bare kings
            return Some(false);
        }
        self.probe(&q).map(|v| matches!(v, Val::Loss(_)))
    }
}
