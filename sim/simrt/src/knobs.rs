//! Tuning knobs the simulator sets per run.

use crate::world;

/// Dimensions (sub-tables, buckets per sub-table) of a fresh search artifact. The
/// shipped engine allocates 128 x 64Ki buckets (1 GiB); the simulator picks small tables
/// so that many runs are affordable and so that the displacement path actually runs.
pub fn fresh_table_dims() -> (usize, usize) {
    world::with(|r| r.dims)
}

pub fn rayon_threads() -> usize {
    world::with(|r| r.rayon_threads)
}

/// Removes `HashSet` iteration order (per-process `RandomState`) from the execution.
pub fn stable_order<T, K: Ord>(mut v: Vec<T>, key: impl Fn(&T) -> K) -> Vec<T> {
    v.sort_by_key(|x| key(x));
    v
}
