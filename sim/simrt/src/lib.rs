//! weechess_simrt — the run-time half of the simulator.
//!
//! The engine crate is compiled against this crate when `--cfg weechess_verif` is set;
//! its `std::sync`, `std::thread`, `std::time`, `std::io::stdin`, `rand::thread_rng`,
//! `println!`/`eprintln!` then resolve to the modules below. Every engine thread is a
//! shuttle task (a coroutine on one OS thread), so all per-run state can live in one
//! plain thread-local (`world::RUN`) that the world task, the engine tasks and the
//! scheduler share. Nothing here reads a real clock or real entropy.

pub mod knobs;
pub mod probe;
pub mod randshim;
pub mod stdshim;
pub mod world;

/// `println!` replacement: the line goes to the run's event log.
#[macro_export]
macro_rules! println {
    () => { $crate::world::out(0, ::std::string::String::new()) };
    ($($arg:tt)*) => { $crate::world::out(0, ::std::format!($($arg)*)) };
}

/// `eprintln!` replacement: the line goes to the run's event log (stream 1).
#[macro_export]
macro_rules! eprintln {
    () => { $crate::world::out(1, ::std::string::String::new()) };
    ($($arg:tt)*) => { $crate::world::out(1, ::std::format!($($arg)*)) };
}
