//! Observation points called from the engine (hook H5). They never draw from a PRNG,
//! never read a real clock and add no scheduling point of their own. A probe may fire a
//! fault action that the run's fault plan registered beforehand (e.g. "send Stop when
//! some worker has searched exactly 10 000 nodes").

use crate::world::{self, TriggerKind, HARNESS_ABORT};

fn fire(kind: TriggerKind, value: u64) {
    // Collect due actions first; run them outside the state borrow.
    let due: Vec<Box<dyn FnOnce()>> = match world::try_with(|r| {
        let mut due = Vec::new();
        for t in r.triggers.iter_mut() {
            if t.kind == kind && t.n == value {
                if let Some(a) = t.action.take() {
                    due.push(a);
                }
            }
        }
        r.probe.triggers_fired += due.len() as u64;
        due
    }) {
        Some(d) => d,
        None => return,
    };
    for a in due {
        a();
    }
}

/// Called for every node, with the calling worker's own node counter (the one the
/// engine polls the cancellation flag on).
pub fn node(local_count: usize, token: u64) {
    let task = world::current_task();
    let (total, over_bound, over_cap) = match world::try_with(|r| {
        r.probe.nodes_total += 1;
        r.nodes_since_iteration += 1;
        let mut over_bound = false;
        if r.cancelled_token == Some(token) {
            // per worker slot (a slot stands for one pool thread across iterations)
            let slot = r.task_slot.get(task).copied().unwrap_or(u32::MAX);
            let slot = if slot == u32::MAX { 0 } else { slot as usize };
            if r.post_cancel_by_slot.len() <= slot {
                r.post_cancel_by_slot.resize(slot + 1, 0);
            }
            r.post_cancel_by_slot[slot] += 1;
            let c = r.post_cancel_by_slot[slot];
            r.probe.post_cancel_nodes = c;
            if c > r.probe.post_cancel_nodes_max {
                r.probe.post_cancel_nodes_max = c;
            }
            over_bound = c > r.post_cancel_bound;
        }
        (r.probe.nodes_total, over_bound, r.probe.nodes_total > r.node_cap)
    }) {
        Some(x) => x,
        None => return,
    };
    if over_bound {
        panic!("{} post-cancel node bound exceeded", HARNESS_ABORT);
    }
    if over_cap {
        panic!("{} node cap exceeded", HARNESS_ABORT);
    }
    fire(TriggerKind::GlobalNode, total);
    fire(TriggerKind::LocalNode, local_count as u64);
}

/// Called by the search thread at the start of every iteration.
pub fn iteration(depth: usize) {
    let _ = world::try_with(|r| {
        r.probe.iterations += 1;
        r.nodes_since_iteration = 0;
        if depth as u64 > r.probe.max_iteration {
            r.probe.max_iteration = depth as u64;
        }
    });
    fire(TriggerKind::Iteration, depth as u64);
}

/// A worker finished the root node of its search (about to write the root entry).
pub fn root_write(_max_depth: usize, has_move: bool) {
    let _ = world::try_with(|r| {
        r.probe.root_writes += 1;
        if !has_move {
            r.probe.root_writes_without_move += 1;
        }
    });
}

/// The cancellation flag is being set.
/// A new cancellation token is being created (one per search).
pub fn new_token() -> u64 {
    world::try_with(|r| {
        r.tokens_created += 1;
        r.tokens_created
    })
    .unwrap_or(0)
}

pub fn cancel_signalled(token: u64) {
    let _ = world::try_with(|r| {
        r.probe.cancels += 1;
        if r.cancelled_token != Some(token) {
            r.cancelled_token = Some(token);
            r.probe.post_cancel_nodes = 0;
            for c in r.post_cancel_by_slot.iter_mut() {
                *c = 0;
            }
            if r.nodes_since_iteration > 0 {
                r.probe.cancel_mid_iteration += 1;
            }
        }
    });
}

/// World side: a search has returned; post-cancel accounting starts afresh.
pub fn search_returned() {
    let _ = world::try_with(|r| {
        r.probe.post_cancel_nodes = 0;
    });
}

/// An iteration ended because a worker saw the cancellation flag at a poll.
pub fn interrupt_observed() {
    let _ = world::try_with(|r| r.probe.interrupts_observed += 1);
}
