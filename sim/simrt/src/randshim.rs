//! `rand` replacement for the UCI loop: `thread_rng()` draws from the run's seeded
//! stream instead of OS entropy.

pub use ::rand::*;

use crate::world;

pub struct SimThreadRng;

pub fn thread_rng() -> SimThreadRng {
    SimThreadRng
}

impl RngCore for SimThreadRng {
    fn next_u32(&mut self) -> u32 {
        self.next_u64() as u32
    }

    fn next_u64(&mut self) -> u64 {
        world::with(|r| {
            r.rng_draws += 1;
            match r.rng_constant {
                Some(c) => c,
                None => r.rng.next_u64(),
            }
        })
    }

    fn fill_bytes(&mut self, dest: &mut [u8]) {
        for chunk in dest.chunks_mut(8) {
            let v = self.next_u64().to_le_bytes();
            chunk.copy_from_slice(&v[..chunk.len()]);
        }
    }

    fn try_fill_bytes(&mut self, dest: &mut [u8]) -> Result<(), Error> {
        self.fill_bytes(dest);
        Ok(())
    }
}
