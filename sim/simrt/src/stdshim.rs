//! `std` replacement seen by the hooked engine modules (`use weechess_simrt::stdshim as std;`).
//! Everything not overridden below is the real `std`.

pub use ::std::*;

pub mod sync {
    pub use shuttle::sync::*;
}

pub mod thread {
    pub use shuttle::thread::*;

    use std::panic::Location;

    /// Same as `shuttle::thread::spawn`, but remembers where the thread was spawned so
    /// that log lines and scheduler strategies can tell the engine's threads apart.
    #[track_caller]
    pub fn spawn<F, T>(f: F) -> JoinHandle<T>
    where
        F: FnOnce() -> T,
        F: Send + 'static,
        T: Send + 'static,
    {
        let loc = Location::caller();
        let file = loc.file().rsplit('/').next().unwrap_or("?");
        let label = format!("{}:{}", file, loc.line());
        shuttle::thread::spawn(move || {
            crate::world::register_task(label);
            f()
        })
    }

    /// Blocks until the *simulated* clock has advanced by `dur`.
    pub fn sleep(dur: std::time::Duration) {
        let now = crate::world::now_ns();
        let d = u64::try_from(dur.as_nanos()).unwrap_or(u64::MAX);
        crate::world::sleep_until(now.saturating_add(d));
    }
}

pub mod time {
    pub use std::time::Duration;

    /// Reads the simulated clock.
    #[derive(Clone, Copy, Debug, PartialEq, Eq, PartialOrd, Ord, Hash)]
    pub struct Instant(u64);

    impl Instant {
        pub fn now() -> Self {
            Instant(crate::world::now_ns())
        }

        pub fn elapsed(&self) -> Duration {
            Duration::from_nanos(crate::world::now_ns().saturating_sub(self.0))
        }

        pub fn duration_since(&self, earlier: Instant) -> Duration {
            Duration::from_nanos(self.0.saturating_sub(earlier.0))
        }
    }

    impl std::ops::Sub<Instant> for Instant {
        type Output = Duration;
        fn sub(self, rhs: Instant) -> Duration {
            self.duration_since(rhs)
        }
    }

    impl std::ops::Add<Duration> for Instant {
        type Output = Instant;
        fn add(self, rhs: Duration) -> Instant {
            Instant(self.0.saturating_add(u64::try_from(rhs.as_nanos()).unwrap_or(u64::MAX)))
        }
    }
}

pub mod io {
    pub use std::io::*;

    /// Simulated standard input: a queue of lines owned by the world.
    pub struct SimStdin;
    pub struct SimStdinLock;
    pub struct SimLines;

    pub fn stdin() -> SimStdin {
        SimStdin
    }

    impl SimStdin {
        pub fn lock(&self) -> SimStdinLock {
            SimStdinLock
        }

        pub fn lines(self) -> SimLines {
            SimLines
        }
    }

    impl SimStdinLock {
        pub fn lines(self) -> SimLines {
            SimLines
        }
    }

    impl Iterator for SimLines {
        type Item = Result<String>;

        fn next(&mut self) -> Option<Self::Item> {
            crate::world::read_line().map(Ok)
        }
    }
}
