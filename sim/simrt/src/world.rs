//! Per-run simulated world: event log, clock, timers, stdin, knobs, probe state.

use std::cell::{Cell, RefCell};
use std::collections::{HashMap, VecDeque};

use rand::SeedableRng;
use rand_chacha::ChaCha8Rng;

/// One entry of the run's event log. The index in the log is the global sequence
/// number ("simulator event sequence"), which is what oracles use for ordering.
#[derive(Clone, Debug, PartialEq, Eq)]
pub enum Event {
    /// The command loop asked for its next input line (= handler of line n-1 finished).
    InReq { n: usize },
    /// Input line n was handed to the command loop.
    In { n: usize, line: String },
    /// End of input was handed to the command loop.
    InEof { n: usize },
    /// A line was written to stdout (0) or stderr (1) by `task`.
    Out { task: usize, stream: u8, line: String },
    /// The world advanced the clock.
    Tick { now_ns: u64 },
    /// Free-form marker written by the world (e.g. "exec returned ok").
    Note { text: String },
}

pub struct Trigger {
    pub kind: TriggerKind,
    pub n: u64,
    pub action: Option<Box<dyn FnOnce()>>,
}

#[derive(Clone, Copy, Debug, PartialEq, Eq)]
pub enum TriggerKind {
    /// total nodes searched in this run (all workers, all searches) reaches n
    GlobalNode,
    /// some worker's own counter (the one the engine polls on) reaches n, counted since arming
    LocalNode,
    /// the search thread starts iteration n (0-based), counted since arming
    Iteration,
}

#[derive(Default, Clone, Debug)]
pub struct ProbeStats {
    pub nodes_total: u64,
    pub iterations: u64,
    pub max_iteration: u64,
    pub root_writes: u64,
    pub root_writes_without_move: u64,
    pub cancels: u64,
    /// nodes searched (any worker) after the most recent cancel signal of the current search
    pub post_cancel_nodes: u64,
    pub post_cancel_nodes_max: u64,
    pub triggers_fired: u64,
    pub cancel_mid_iteration: u64,
    pub interrupts_observed: u64,
}

pub struct Run {
    pub log: Vec<Event>,
    pub clock_ns: u64,
    pub clock_jitter: u64,
    pub clock_reads: u64,
    pub sleepers: Vec<(u64, shuttle::thread::Thread)>,
    pub sleeps: u64,
    /// fault: nobody reads the process's stdout (a full pipe): writers to stream 0 block
    pub stdout_stalled: bool,
    pub stdout_waiters: Vec<shuttle::thread::Thread>,
    pub stdout_blocked_writes: u64,
    pub stdin: VecDeque<Option<String>>,
    pub stdin_waiter: Option<shuttle::thread::Thread>,
    pub stdin_requests: usize,
    pub stdin_delivered: usize,
    pub labels: HashMap<usize, String>,
    pub dims: (usize, usize),
    pub rayon_threads: usize,
    pub rng: ChaCha8Rng,
    pub rng_constant: Option<u64>,
    pub rng_draws: u64,
    pub triggers: Vec<Trigger>,
    pub probe: ProbeStats,
    /// id of the most recently cancelled token (nodes searched under it count as post-cancel)
    pub cancelled_token: Option<u64>,
    pub tokens_created: u64,
    pub nodes_since_iteration: u64,
    pub post_cancel_bound: u64,
    pub node_cap: u64,
    pub tasks_spawned: usize,
    pub workers_spawned: usize,
    pub max_workers_in_iteration: usize,
    /// task id -> worker slot (index of the item in the parallel iterator), u32::MAX if not a worker
    pub task_slot: Vec<u32>,
    /// per worker slot: nodes searched since the cancel signal of the current search
    pub post_cancel_by_slot: Vec<u64>,
}

impl Run {
    pub fn new(rng_seed: u64) -> Self {
        Self {
            log: Vec::new(),
            clock_ns: 0,
            clock_jitter: rng_seed ^ 0x9e3779b97f4a7c15,
            clock_reads: 0,
            sleepers: Vec::new(),
            sleeps: 0,
            stdout_stalled: false,
            stdout_waiters: Vec::new(),
            stdout_blocked_writes: 0,
            stdin: VecDeque::new(),
            stdin_waiter: None,
            stdin_requests: 0,
            stdin_delivered: 0,
            labels: HashMap::new(),
            dims: (8, 1024),
            rayon_threads: 4,
            rng: ChaCha8Rng::seed_from_u64(rng_seed),
            rng_constant: None,
            rng_draws: 0,
            triggers: Vec::new(),
            probe: ProbeStats::default(),
            cancelled_token: None,
            tokens_created: 0,
            nodes_since_iteration: 0,
            post_cancel_bound: u64::MAX,
            node_cap: u64::MAX,
            tasks_spawned: 0,
            workers_spawned: 0,
            max_workers_in_iteration: 0,
            task_slot: Vec::new(),
            post_cancel_by_slot: Vec::new(),
        }
    }
}

thread_local! {
    pub static RUN: RefCell<Option<Run>> = const { RefCell::new(None) };
    /// Written by the scheduler at every decision: (runnable tasks, was the world among them).
    pub static SCHED_RUNNABLE: Cell<usize> = const { Cell::new(0) };
    pub static SCHED_STEPS: Cell<u64> = const { Cell::new(0) };
}

/// Panic payload prefix used when the *harness* aborts a run (bounds exceeded); the
/// runner tells these apart from panics of the code under test.
pub const HARNESS_ABORT: &str = "WSIM-ABORT:";

pub fn with<R>(f: impl FnOnce(&mut Run) -> R) -> R {
    RUN.with(|r| {
        let mut b = r.borrow_mut();
        f(b.as_mut().expect("weechess_simrt: no simulated run is active on this thread"))
    })
}

pub fn try_with<R>(f: impl FnOnce(&mut Run) -> R) -> Option<R> {
    RUN.with(|r| match r.try_borrow_mut() {
        Ok(mut b) => b.as_mut().map(f),
        Err(_) => None,
    })
}

pub fn begin(run: Run) {
    RUN.with(|r| *r.borrow_mut() = Some(run));
    SCHED_RUNNABLE.set(0);
    SCHED_STEPS.set(0);
}

/// Ends the run and returns its state. Must be called from inside the execution so that
/// the shuttle handles held in it are dropped there.
pub fn end() -> Option<Run> {
    RUN.with(|r| r.borrow_mut().take())
}

/// Abnormal end (panic unwound through the execution): the shuttle handles inside the
/// state may not be dropped outside an execution, so they are leaked.
pub fn end_abnormal() -> Option<Run> {
    RUN.with(|r| {
        let mut run = r.borrow_mut().take()?;
        for s in run.sleepers.drain(..) {
            std::mem::forget(s);
        }
        if let Some(w) = run.stdin_waiter.take() {
            std::mem::forget(w);
        }
        for t in run.triggers.drain(..) {
            std::mem::forget(t);
        }
        Some(run)
    })
}

fn me() -> usize {
    usize::from(shuttle::current::me())
}

// ---------------------------------------------------------------- output / log

pub fn out(stream: u8, line: String) {
    let task = me();
    if stream == 0 {
        // a stalled stdout blocks the writer until the world lets the reader drain it
        let mut counted = false;
        loop {
            let stalled = with(|r| {
                if r.stdout_stalled {
                    if !counted {
                        r.stdout_blocked_writes += 1;
                    }
                    r.stdout_waiters.push(shuttle::thread::current());
                    true
                } else {
                    false
                }
            });
            if !stalled {
                break;
            }
            counted = true;
            shuttle::thread::park();
        }
    }
    with(|r| r.log.push(Event::Out { task, stream, line }));
}

/// World side: stdout stops being read.
pub fn stall_stdout() {
    with(|r| r.stdout_stalled = true);
}

/// World side: stdout is read again. Returns true if a writer was waiting.
pub fn resume_stdout() -> bool {
    let waiters: Vec<shuttle::thread::Thread> = with(|r| {
        r.stdout_stalled = false;
        r.stdout_waiters.drain(..).collect()
    });
    let any = !waiters.is_empty();
    for t in waiters {
        t.unpark();
    }
    any
}

pub fn note(text: impl Into<String>) {
    let text = text.into();
    with(|r| r.log.push(Event::Note { text }));
}

pub fn log_len() -> usize {
    with(|r| r.log.len())
}

pub fn register_task(label: String) {
    let task = me();
    with(|r| {
        r.tasks_spawned += 1;
        r.labels.insert(task, label);
    });
}

pub fn register_worker(slot: usize) {
    let task = me();
    with(|r| {
        r.tasks_spawned += 1;
        r.labels.insert(task, format!("worker:{}", slot));
        if r.task_slot.len() <= task {
            r.task_slot.resize(task + 1, u32::MAX);
        }
        r.task_slot[task] = slot as u32;
        if r.post_cancel_by_slot.len() <= slot {
            r.post_cancel_by_slot.resize(slot + 1, 0);
        }
    });
}

pub fn current_task() -> usize {
    me()
}

// ---------------------------------------------------------------- clock

/// Reads the simulated clock. Reading it takes time: every read moves the clock on by a
/// small seeded amount (at most a microsecond), so two reads never see the same instant,
/// exactly as with a real monotonic clock. (An `elapsed()` of exactly zero right after
/// `now()` would hide bugs that depend on time having passed.)
pub fn now_ns() -> u64 {
    with(|r| {
        r.clock_jitter = r.clock_jitter.wrapping_mul(6364136223846793005).wrapping_add(1442695040888963407);
        let dt = 1 + (r.clock_jitter >> 54) % 1000;
        r.clock_ns = r.clock_ns.saturating_add(dt);
        r.clock_reads += 1;
        r.clock_ns
    })
}

/// World side: the clock value without the cost of reading it.
pub fn peek_ns() -> u64 {
    with(|r| r.clock_ns)
}

/// Engine side: block until the simulated clock has passed `deadline`.
pub fn sleep_until(deadline_ns: u64) {
    loop {
        let due = with(|r| {
            if r.clock_ns >= deadline_ns {
                true
            } else {
                r.sleeps += 1;
                r.sleepers.push((deadline_ns, shuttle::thread::current()));
                false
            }
        });
        if due {
            return;
        }
        shuttle::thread::park();
    }
}

/// World side: advance the clock and release every sleeper whose deadline has passed.
pub fn tick(dt_ns: u64) {
    let due: Vec<shuttle::thread::Thread> = with(|r| {
        r.clock_ns = r.clock_ns.saturating_add(dt_ns);
        let now = r.clock_ns;
        r.log.push(Event::Tick { now_ns: now });
        let mut due = Vec::new();
        let mut i = 0;
        while i < r.sleepers.len() {
            if r.sleepers[i].0 <= now {
                due.push(r.sleepers.remove(i).1);
            } else {
                i += 1;
            }
        }
        due
    });
    for t in due {
        t.unpark();
    }
}

pub fn next_deadline() -> Option<u64> {
    with(|r| r.sleepers.iter().map(|s| s.0).min())
}

pub fn sleeper_count() -> usize {
    with(|r| r.sleepers.len())
}

// ---------------------------------------------------------------- stdin

/// World side: queue a line (or EOF) for the command loop.
pub fn push_line(line: Option<String>) {
    let waiter = with(|r| {
        r.stdin.push_back(line);
        r.stdin_waiter.take()
    });
    if let Some(w) = waiter {
        w.unpark();
    }
}

/// Engine side: blocking read of the next line; `None` is end of input.
pub fn read_line() -> Option<String> {
    with(|r| {
        let n = r.stdin_requests;
        r.stdin_requests += 1;
        r.log.push(Event::InReq { n });
    });
    loop {
        let got = with(|r| match r.stdin.pop_front() {
            Some(item) => {
                let n = r.stdin_delivered;
                r.stdin_delivered += 1;
                match &item {
                    Some(line) => r.log.push(Event::In { n, line: line.clone() }),
                    None => r.log.push(Event::InEof { n }),
                }
                Some(item)
            }
            None => {
                r.stdin_waiter = Some(shuttle::thread::current());
                None
            }
        });
        match got {
            Some(item) => return item,
            None => shuttle::thread::park(),
        }
    }
}

// ---------------------------------------------------------------- world stepping

/// Let the other tasks run for one scheduling decision. Returns the number of tasks
/// that were runnable at that decision *besides* the caller; 0 means the system is
/// quiescent (every other task is blocked or finished).
pub fn step() -> usize {
    shuttle::thread::yield_now();
    SCHED_RUNNABLE.get().saturating_sub(1)
}

pub fn steps() -> u64 {
    SCHED_STEPS.get()
}
