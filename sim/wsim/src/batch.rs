//! Seeded search over cases and schedules: many short runs in parallel, aggregation into
//! an evidence file, minimisation and replay files for violations.

use std::collections::{BTreeMap, HashSet};
use std::sync::atomic::{AtomicBool, AtomicU64, Ordering};
use std::sync::Mutex;
use std::time::Instant;

use serde_json::{json, Value};

use crate::cases::{self, Case};
use crate::exec::Outcome;
use crate::report::*;
use crate::rng::derive;
use crate::sched::SchedSpec;
use crate::Ctx;

pub struct BatchCfg {
    pub prop: String,
    pub thorough: bool,
    pub base_seed: u64,
    pub runs: u64,
    pub jobs: usize,
    pub max_secs: u64,
    pub write_evidence: bool,
    pub quiet: bool,
}

#[derive(Default)]
struct Agg {
    evaluations: u64,
    nontrivial_pairs: HashSet<u64>,
    distinct_traces: HashSet<u64>,
    distinct_logs: HashSet<u64>,
    distinct_cases: HashSet<u64>,
    faults: BTreeMap<String, u64>,
    fault_runs: BTreeMap<String, u64>,
    probes: BTreeMap<String, u64>,
    oracle_evals: BTreeMap<String, u64>,
    outcomes: BTreeMap<String, u64>,
    steps: u64,
    switches: u64,
    choice_points: u64,
    nodes: u64,
    sim_ns: u128,
    max_runnable: usize,
    post_cancel_max: u64,
    post_cancel_hist: [u64; 8],
    samples: Vec<Value>,
    found: Vec<Found>,
    known_hits: BTreeMap<String, (u64, String)>,
    violating_runs: BTreeMap<String, u64>,
    enum_stop_steps: std::collections::BTreeSet<u64>,
    enum_stop_nodes: std::collections::BTreeSet<u64>,
    enum_lines: u64,
    other_props: BTreeMap<String, (u64, String)>,
    harness_errors: Vec<String>,
    harness_error_count: u64,
    diverged: u64,
    digests: Vec<(u64, u64)>,
}

pub struct Found {
    pub index: u64,
    pub run_seed: u64,
    pub case: Case,
    pub spec: SchedSpec,
    pub violation: Violation,
    pub trace: Vec<(u32, u32)>,
}

fn prop_tag(prop: &str) -> u64 {
    prop.bytes().fold(0u64, |a, b| a.wrapping_mul(131).wrapping_add(b as u64))
}

pub fn run_seed_for(base: u64, prop: &str, index: u64) -> u64 {
    derive(base, prop_tag(prop), index)
}

fn case_hash(case: &Case) -> u64 {
    let s = serde_json::to_string(case).unwrap_or_default();
    let mut h = FNV_INIT;
    fnv(&mut h, s.as_bytes());
    h
}

fn outcome_name(o: &Outcome) -> &'static str {
    match o {
        Outcome::Completed => "completed",
        Outcome::Panic { .. } => "panic",
        Outcome::Abort { .. } => "harness-abort",
        Outcome::Deadlock { .. } => "deadlock",
        Outcome::StepCap => "step-cap",
    }
}

pub struct BatchResult {
    pub exit: i32,
    pub digests: Vec<(u64, u64)>,
}

pub fn run_batch(ctx: &Ctx, cfg: &BatchCfg) -> BatchResult {
    let start = Instant::now();
    let next = AtomicU64::new(0);
    let stop = AtomicBool::new(false);
    let agg = Mutex::new(Agg::default());
    std::thread::scope(|s| {
        for _ in 0..cfg.jobs.max(1) {
            std::thread::Builder::new()
                .stack_size(64 << 20)
                .spawn_scoped(s, || loop {
                    if stop.load(Ordering::Relaxed) || start.elapsed().as_secs() >= cfg.max_secs {
                        break;
                    }
                    let i = next.fetch_add(1, Ordering::Relaxed);
                    if i >= cfg.runs {
                        break;
                    }
                    let run_seed = run_seed_for(cfg.base_seed, &cfg.prop, i);
                    let (case, spec) = cases::generate(ctx, &cfg.prop, cfg.thorough, run_seed, i);
                    let rep = cases::run(ctx, &case, &spec);
                    let ch = case_hash(&case);
                    let mut a = agg.lock().unwrap();
                    a.evaluations += 1;
                    a.distinct_cases.insert(ch);
                    match &case {
                        Case::Search(sc) => {
                            for sp in &sc.searches {
                                for f in &sp.faults {
                                    match f.kind {
                                        crate::search::FaultKind::StopAtStep if f.at <= 64 => {
                                            a.enum_stop_steps.insert(f.at);
                                        }
                                        crate::search::FaultKind::StopAtLocalNode if [1u64, 2, 9_999, 10_000, 10_001, 19_999, 20_000].contains(&f.at) => {
                                            a.enum_stop_nodes.insert(f.at);
                                        }
                                        _ => {}
                                    }
                                }
                            }
                        }
                        Case::Uci(uc) if uc.prop == "C14" => {
                            if (i as usize) < crate::malformed::enumerated_cached().len() {
                                a.enum_lines += 1;
                            }
                        }
                        _ => {}
                    }
                    a.distinct_traces.insert(rep.stats.trace_hash);
                    a.distinct_logs.insert(rep.digest);
                    if rep.stats.choice_points > 0 && cases::nontrivial(&case) {
                        a.nontrivial_pairs.insert(ch ^ rep.stats.trace_hash.rotate_left(32));
                    }
                    for (k, n) in &rep.stats.faults {
                        *a.faults.entry(k.clone()).or_insert(0) += n;
                        *a.fault_runs.entry(k.clone()).or_insert(0) += 1;
                    }
                    for (k, n) in &rep.stats.probes {
                        *a.probes.entry(k.clone()).or_insert(0) += n;
                    }
                    for (k, n) in &rep.stats.oracle_evals {
                        *a.oracle_evals.entry(k.clone()).or_insert(0) += n;
                    }
                    *a.outcomes.entry(outcome_name(&rep.outcome).to_string()).or_insert(0) += 1;
                    a.steps += rep.stats.steps;
                    a.switches += rep.stats.switches;
                    a.choice_points += rep.stats.choice_points;
                    a.nodes += rep.stats.nodes;
                    a.sim_ns += rep.stats.sim_ns as u128;
                    a.max_runnable = a.max_runnable.max(rep.stats.max_runnable);
                    a.post_cancel_max = a.post_cancel_max.max(rep.stats.post_cancel_max);
                    if rep.stats.post_cancel_max > 0 {
                        let b = match rep.stats.post_cancel_max { 0..=999 => 0, 1000..=4999 => 1, 5000..=9999 => 2, 10000..=19999 => 3, 20000..=49999 => 4, 50000..=99999 => 5, 100000..=249999 => 6, _ => 7 };
                        a.post_cancel_hist[b] += 1;
                    }
                    if rep.diverged {
                        a.diverged += 1;
                    }
                    a.digests.push((i, rep.digest ^ rep.stats.trace_hash));
                    if a.samples.len() < 4 && (i % 7 == 0 || a.samples.is_empty()) {
                        let head: Vec<&String> = rep.transcript.iter().take(24).collect();
                        a.samples.push(json!({"index": i, "run_seed": run_seed, "case": case, "schedule": {"seed": spec.seed, "strategy": spec.strategy}, "transcript_head": head, "steps": rep.stats.steps, "context_switches": rep.stats.switches}));
                    }
                    if let Some(e) = &rep.harness_error {
                        a.harness_error_count += 1;
                        if a.harness_errors.len() < 10 {
                            a.harness_errors.push(format!("run {} (seed {}): {}", i, run_seed, e));
                        }
                    }
                    for v in rep.violations {
                        if v.property != cfg.prop {
                            let e = a.other_props.entry(v.signature.clone()).or_insert((0, format!("[run index {}] {}", i, v.detail)));
                            e.0 += 1;
                            continue;
                        }
                        if let Some(k) = ctx.known.iter().find(|k| k.matches(&v)) {
                            let e = a.known_hits.entry(k.signature.clone()).or_insert((0, k.what.clone()));
                            e.0 += 1;
                            continue;
                        }
                        *a.violating_runs.entry(v.signature.clone()).or_insert(0) += 1;
                        if !a.found.iter().any(|f| f.violation.signature == v.signature) {
                            a.found.push(Found { index: i, run_seed, case: case.clone(), spec: spec.clone(), violation: v, trace: rep.trace.clone() });
                        }
                        if a.found.len() >= 3 {
                            stop.store(true, Ordering::Relaxed);
                        }
                    }
                })
                .unwrap();
        }
    });
    let mut a = agg.into_inner().unwrap();
    let wall = start.elapsed().as_secs_f64();
    a.digests.sort();

    let mut exit = 0;
    for (sig, (n, what)) in &a.known_hits {
        println!("KNOWN-FINDING: property={} {} ({}; seen in {} runs)", cfg.prop, sig, what, n);
    }
    // A generated workload that outgrows its caps before anything was asked of the engine
    // is discarded, not judged; it is reported, and fatal only when it is not rare.
    if a.harness_error_count > 0 {
        for e in &a.harness_errors {
            eprintln!("[wsim] discarded run: {}", e);
        }
        if a.harness_error_count * 200 > a.evaluations.max(1) {
            eprintln!("HARNESS-ERROR: {} of {} runs were discarded (more than 0.5%)", a.harness_error_count, a.evaluations);
            exit = 2;
        }
    }
    // minimise and persist what was found
    let mut replay_paths = Vec::new();
    a.found.sort_by_key(|f| f.index);
    for f in a.found.iter().take(3) {
        let path = crate::replay::minimise_and_write(ctx, f, &cfg.prop);
        println!("VIOLATION property={} replay={}", cfg.prop, path);
        if !cfg.quiet {
            println!("  signature: {} (seen in {} of the runs executed)", f.violation.signature, a.violating_runs.get(&f.violation.signature).copied().unwrap_or(0));
            println!("  detail: {}", f.violation.detail);
        }
        replay_paths.push(path);
        exit = 1;
    }

    if cfg.write_evidence {
        let level = match cfg.prop.as_str() {
            "C04" | "C14" => "fault_enumeration",
            _ => "exploration",
        };
        let probes_at_zero: Vec<&str> = crate::expected_probes(&cfg.prop).into_iter().filter(|p| !a.probes.contains_key(*p) && !a.fault_runs.contains_key(*p)).collect();
        let ev = json!({
            "property_id": cfg.prop,
            "tier": if cfg.thorough { "thorough" } else { "quick" },
            "seed": cfg.base_seed as i64,
            "level": level,
            "wall_s": wall,
            "violations": a.found.len(),
            "coverage": {
                "evaluations": a.evaluations,
                "distinct_nontrivial": a.nontrivial_pairs.len(),
                "rule": crate::coverage_rule(&cfg.prop),
                "samples": a.samples,
                "runs_per_hour": if wall > 0.0 { (a.evaluations as f64 / wall * 3600.0) as u64 } else { 0 },
                "seeds": {"base_seed": cfg.base_seed, "first_run_seed": run_seed_for(cfg.base_seed, &cfg.prop, 0), "last_run_seed": run_seed_for(cfg.base_seed, &cfg.prop, a.evaluations.saturating_sub(1)), "derivation": "run seed = derive(base seed, property, run index); workload, fault plan and schedule streams are derived from the run seed"},
                "distinct_cases": a.distinct_cases.len(),
                "distinct_interleavings_by_decision_trace": a.distinct_traces.len(),
                "distinct_event_logs": a.distinct_logs.len(),
                "scheduler_steps": a.steps,
                "context_switches": a.switches,
                "choice_points_with_2plus_runnable": a.choice_points,
                "max_runnable_tasks": a.max_runnable,
                "nodes_searched": a.nodes,
                "post_cancel_nodes_per_worker_max": a.post_cancel_max,
                "post_cancel_nodes_histogram": {"<1k": a.post_cancel_hist[0], "1k-5k": a.post_cancel_hist[1], "5k-10k": a.post_cancel_hist[2], "10k-20k": a.post_cancel_hist[3], "20k-50k": a.post_cancel_hist[4], "50k-100k": a.post_cancel_hist[5], "100k-250k": a.post_cancel_hist[6], ">=250k": a.post_cancel_hist[7]},
                "simulated_time_s": (a.sim_ns / 1_000_000_000) as u64,
                "simulated_time_note": "summed simulated clock of UCI sessions (end-of-session clock jumps excluded, each session capped at 4000 s); search- and table-level scenarios have no clock and report scheduler steps and nodes instead",
                "faults_fired": a.faults,
                "runs_with_fault": a.fault_runs,
                "reach_probes": a.probes,
                "probes_at_zero": probes_at_zero,
                "oracle_evaluations": a.oracle_evals,
                "run_outcomes": a.outcomes,
                "known_findings_seen": a.known_hits.iter().map(|(k, v)| json!({"signature": k, "runs": v.0})).collect::<Vec<_>>(),
                "violations_of_other_properties_seen": a.other_props.iter().map(|(k, v)| json!({"signature": k, "runs": v.0, "example": v.1})).collect::<Vec<_>>(),
                "replay_files": replay_paths,
                "discarded_runs": a.harness_error_count,
                "discarded_run_examples": a.harness_errors,
                "real_code": ["weechess-core (all of it)", "weechess-engine: searcher.rs, uci.rs, eval/*, book.rs, embedded opening book"],
                "stubs": ["rayon (one simulated task per item)", "std::sync / std::thread (shuttle 0.9.3, sequentially consistent; shuttle-engine 0.1.1 vendored with one teardown guard)", "clock and sleep (simulated)", "stdin / stdout / stderr (simulated)", "rand::thread_rng (seeded)", "weechess-cli main.rs not executed"],
                "enumerated": match cfg.prop.as_str() {
                    "C04" => json!({"stop_at_world_step_0_to_64": {"space": 65, "covered": a.enum_stop_steps.len()}, "stop_at_worker_node_around_polls": {"space": 7, "covered": a.enum_stop_nodes.len(), "values": [1, 2, 9999, 10000, 10001, 19999, 20000]}, "note": "crossed with drawn positions, depths, worker counts, multiplicities and seeded schedules; the remaining instants (global node counts, iteration starts, late world steps) are drawn"}),
                    "C14" => json!({"malformed_lines": {"space": crate::malformed::enumerated_cached().len(), "covered": a.enum_lines}, "note": "each enumerated line is injected once at a drawn place of a drawn session; further lines are seeded mutations"}),
                    _ => json!(null),
                },
                "exhaustive": false
            },
            "assumptions": crate::assumptions(&cfg.prop),
        });
        let dir = ctx.verif_dir.join("evidence");
        let _ = std::fs::create_dir_all(&dir);
        let path = dir.join(format!("{}.json", cfg.prop));
        std::fs::write(&path, serde_json::to_string_pretty(&ev).unwrap()).expect("write evidence");
    }
    if !cfg.quiet {
        println!(
            "[wsim] {} {}: {} runs in {:.1}s ({} distinct non-trivial case x schedule pairs, {} distinct traces), {} violations, {} known-finding signatures, exit {}",
            cfg.prop,
            if cfg.thorough { "thorough" } else { "quick" },
            a.evaluations,
            wall,
            a.nontrivial_pairs.len(),
            a.distinct_traces.len(),
            a.found.len(),
            a.known_hits.len(),
            exit
        );
        if !a.other_props.is_empty() {
            for (k, (n, ex)) in &a.other_props {
                let short: String = ex.chars().take(300).collect();
                println!("[wsim] (other property, {} runs) {} :: {}", n, k, short);
            }
        }
    }
    BatchResult { exit, digests: a.digests }
}
