//! Conversions between the engine's types and the independent reference rules.

use refchess::{Mv, Pos};
use weechess_core::notation::{into_notation, try_from_notation, Fen};
use weechess_core::{Move, Piece, State};

pub fn state_from_fen(fen: &str) -> Option<State> {
    try_from_notation::<State, Fen>(fen).ok()
}

pub fn state_fen(s: &State) -> String {
    into_notation::<_, Fen>(s).to_string()
}

pub fn mv_of(m: &Move) -> Mv {
    let from: u8 = m.origin().into();
    let to: u8 = m.destination().into();
    let promo = match m.promotion() {
        Some(Piece::Knight) => refchess::KNIGHT,
        Some(Piece::Bishop) => refchess::BISHOP,
        Some(Piece::Rook) => refchess::ROOK,
        Some(Piece::Queen) => refchess::QUEEN,
        Some(_) => 7, // not a legal promotion piece; never matches a legal move
        None => 0,
    };
    Mv { from, to, promo }
}

/// Replays an engine line with the reference rules. Ok(final position) or
/// Err((index of first illegal move, position where it was tried)).
pub fn replay_line(start: &Pos, line: &[Move]) -> Result<Pos, (usize, Pos, Mv)> {
    let mut p = start.clone();
    for (i, m) in line.iter().enumerate() {
        let mv = mv_of(m);
        if !p.is_legal(mv) {
            return Err((i, p, mv));
        }
        p = p.make(mv);
    }
    Ok(p)
}

pub fn line_uci(line: &[Move]) -> Vec<String> {
    line.iter().map(|m| mv_of(m).uci()).collect()
}
