//! A `Case` is the explicit, serialisable description of one simulated run's workload and
//! fault plan. Generation (seed -> Case) is separate from execution (Case + schedule ->
//! report), so that a replay file can carry the minimised case verbatim.

use serde::{Deserialize, Serialize};

use crate::report::RunReport;
use crate::rng::{derive, Rng64};
use crate::sched::{SchedSpec, Strategy};
use crate::search::SearchCase;
use crate::table::TableCase;
use crate::uci::UciCase;
use crate::Ctx;

#[derive(Clone, Debug, Serialize, Deserialize, PartialEq)]
pub enum Case {
    Table(TableCase),
    Search(SearchCase),
    Uci(UciCase),
}

pub fn gen_sched(rng: &mut Rng64, step_cap: u64, max_nth: u64) -> SchedSpec {
    let seed = rng.next();
    let strategy = match rng.below(14) {
        12 | 13 => Strategy::DelayOne { nth: 1 + rng.below(max_nth) as u32, after: rng.below(4) as u32, max_freeze: *rng.pick(&[2_000u32, 50_000, 2_000_000]) },
        0..=2 => Strategy::Uniform,
        3 => Strategy::Sticky(500),
        4..=5 => Strategy::Sticky(900),
        6 => Strategy::Sticky(990),
        7..=8 => Strategy::Pct { d: 1 + rng.below(5) as u32, len: *rng.pick(&[200u32, 2_000, 20_000, 100_000]) },
        9..=10 => Strategy::StarveOne { from: rng.below(3000) as u32, len: *rng.pick(&[50u32, 500, 5_000, 50_000]) },
        _ => Strategy::RoundRobin,
    };
    SchedSpec { seed, strategy, trace: None, step_cap }
}

pub fn generate(ctx: &Ctx, prop: &str, thorough: bool, run_seed: u64, index: u64) -> (Case, SchedSpec) {
    let mut wl = Rng64::new(derive(run_seed, 1, 0));
    let mut sr = Rng64::new(derive(run_seed, 2, 0));
    match prop {
        "C15" => {
            let c = crate::table::generate(&mut wl, thorough);
            (Case::Table(c), gen_sched(&mut sr, 2_000_000, 12))
        }
        "C04" if index % 5 == 4 => {
            // process clause: `go` on terminal and ordinary positions inside real UCI sessions
            let c = crate::uci::generate(ctx, prop, &mut wl, thorough, index);
            (Case::Uci(c), gen_sched(&mut sr, 60_000_000, 48))
        }
        "C03" | "C04" | "C06" | "C17" | "C19" => {
            let c = crate::search::generate(ctx, prop, &mut wl, thorough, index);
            let cap = crate::search::step_cap(&c);
            (Case::Search(c), gen_sched(&mut sr, cap, 12))
        }
        "C07" | "C14" | "C18" => {
            let c = crate::uci::generate(ctx, prop, &mut wl, thorough, index);
            (Case::Uci(c), gen_sched(&mut sr, 60_000_000, 48))
        }
        _ => panic!("no scenario for property {}", prop),
    }
}

pub fn run(ctx: &Ctx, case: &Case, spec: &SchedSpec) -> RunReport {
    let mut rep = match case {
        Case::Table(c) => crate::table::run(c, spec),
        Case::Search(c) => crate::search::run(ctx, c, spec),
        Case::Uci(c) => crate::uci::run(ctx, c, spec),
    };
    // A panic raised by the simulator itself because the operating system refused memory for a
    // task's stack says nothing about the engine: the run is discarded (reported and counted),
    // not judged.
    if let crate::exec::Outcome::Panic { msg, loc } = &rep.outcome {
        if loc.contains("shuttle") && (msg.contains("Cannot allocate memory") || msg.contains("OutOfMemory")) {
            rep.harness_error = Some(format!("the simulator could not allocate a task stack ({} at {}): run discarded", msg, loc));
            rep.violations.clear();
        }
    }
    rep
}

pub fn shrink(case: &Case) -> Vec<Case> {
    match case {
        Case::Table(c) => crate::table::shrink(c).into_iter().map(Case::Table).collect(),
        Case::Search(c) => crate::search::shrink(c).into_iter().map(Case::Search).collect(),
        Case::Uci(c) => crate::uci::shrink(c).into_iter().map(Case::Uci).collect(),
    }
}

pub fn nontrivial(case: &Case) -> bool {
    match case {
        Case::Table(c) => crate::table::nontrivial(c),
        Case::Search(c) => crate::search::nontrivial(c),
        Case::Uci(c) => crate::uci::nontrivial(c),
    }
}
