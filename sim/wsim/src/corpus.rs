//! Curated positions and seeded position generators (all by the reference rules).

use refchess::tb::{Tb, Val};
use refchess::*;

use crate::rng::Rng64;

/// Ordinary middlegame / opening positions (out of the engine's book).
pub const NORMAL: &[&str] = &[
    "r3k2r/p1ppqpb1/bn2pnp1/3PN3/1p2P3/2N2Q1p/PPPBBPPP/R3K2R w KQkq - 0 1",
    "r4rk1/1pp1qppp/p1np1n2/2b1p1B1/2B1P1b1/P1NP1N2/1PP1QPPP/R4RK1 w - - 0 10",
    "rnbq1k1r/pp1Pbppp/2p5/8/2B5/8/PPP1NnPP/RNBQK2R w KQ - 1 8",
    "r3k2r/Pppp1ppp/1b3nbN/nP6/BBP1P3/q4N2/Pp1P2PP/R2Q1RK1 w kq - 0 1",
    "r1bq1rk1/pp2ppbp/2np1np1/8/3NP3/2N1BP2/PPPQ2PP/R3KB1R w KQ - 3 9",
    "2rq1rk1/pp1bppbp/3p1np1/8/2BNP3/2N1BP2/PPPQ2PP/2KR3R b - - 6 12",
    "r2q1rk1/1b1nbppp/pp1ppn2/8/2PNP3/1PN3P1/PB3PBP/R2Q1RK1 w - - 0 12",
    "8/2p5/3p4/KP5r/1R3p1k/8/4P1P1/8 w - - 0 1",
    "r3k2r/ppp2Npp/1b5n/4p2b/2B1P2q/BQP2P2/P5PP/RN5K w kq - 1 1",
    "r1b1k2r/ppppnppp/2n2q2/2b5/3NP3/2P1B3/PP3PPP/RN1QKB1R w KQkq - 3 7",
    "rnbqkb1r/pp3ppp/4pn2/2pp4/3P1B2/2P1PN2/PP3PPP/RN1QKB1R b KQkq - 0 5",
    "4rrk1/pp1n3p/3q2pQ/2p1pb2/2PP4/2P3N1/P2B2PP/4RRK1 b - - 7 19",
];

/// Positions whose rule-relevant state beyond placement matters: castling rights and
/// en-passant squares; siblings are derived from these by `siblings`.
pub const RIGHTS: &[&str] = &[
    "4k3/p6p/Pp4pP/1Pp2pP1/2Pp1P2/3P4/8/4K2R w K - 0 1",
    "r3k2r/pppq1ppp/2npbn2/2b1p3/2B1P3/2NPBN2/PPPQ1PPP/R3K2R w KQkq - 0 1",
    "r3k2r/pppq1ppp/2npbn2/2b1p3/2B1P3/2NPBN2/PPPQ1PPP/R3K2R b KQkq - 0 1",
    "r3k3/8/8/8/8/8/8/4K2R w Kq - 0 1",
    "4k2r/6pp/8/8/8/8/PP6/R3K3 w Qk - 0 1",
    "r3k2r/8/8/8/8/8/8/R3K2R w KQkq - 0 1",
    "r3k2r/p6p/8/8/8/8/P6P/R3K2R b KQkq - 0 1",
    "rnbqkbnr/ppp1p1pp/8/3pPp2/8/8/PPPP1PPP/RNBQKBNR w KQkq f6 0 3",
    "rnbqkbnr/pppp1ppp/8/8/3PpP2/8/PPP1P1PP/RNBQKBNR b KQkq f3 0 3",
    "8/8/8/K2pP2r/8/8/8/7k w - d6 0 1",
    "8/8/3k4/8/2pP4/8/8/4K2B b - d3 0 1",
    "4k3/8/8/2pP4/8/8/8/4K3 w - c6 0 2",
    "4k3/8/8/8/5Pp1/8/8/4K3 b - f3 0 2",
    "r1bqk2r/ppp2ppp/2n5/3pP3/1b1Pn3/2N2N2/PP3PPP/R1BQKB1R w KQkq d6 0 7",
    "4k3/8/8/8/8/8/4P3/R3K2R w KQ - 0 1",
    "r3k2r/4p3/8/8/8/8/8/4K3 b kq - 0 1",
    // rooks facing each other on an open file with castling rights still held: a rook (or king)
    // taking a rook on its home corner must take the victim's right with it
    "rnbqk1nr/pppp1pp1/8/4p3/4P3/8/PPPP1PP1/RNBQKBNR w KQkq - 0 1",
    "r1bqk2r/pppp1pb1/2n2n2/4p3/4P3/2N2N2/PPPP1P2/R1BQKB1R w KQkq - 0 1",
    "rn2kbnr/1ppqpppp/8/8/8/8/1PPQPPPP/RN2KBNR w KQkq - 0 1",
    "r3k2r/1pp2pp1/8/8/8/8/1PP2PP1/R3K2R b KQkq - 0 1",
];

/// Promotion, in-check and few-move positions.
pub const SPECIAL: &[&str] = &[
    "8/P6k/8/8/8/8/7K/8 w - - 0 1",
    "4k3/1P6/8/8/8/8/8/4K3 w - - 0 1",
    "n1n5/PPPk4/8/8/8/8/4Kppp/5N1N b - - 0 1",
    "8/5k2/8/8/8/8/1p4K1/8 b - - 0 1",
    "4k3/8/8/8/8/8/3p4/4K3 w - - 0 1",
    "r3k3/8/8/8/8/8/8/R3K2r w Qq - 0 1",
    "4k3/8/8/8/7b/8/8/4K3 w - - 0 1",
    "8/8/8/8/8/5k2/8/6qK w - - 0 1",
    "5k2/8/5K2/8/8/8/8/6R1 w - - 0 1",
    "k7/2K5/8/1Q6/8/8/8/8 w - - 0 1",
    "6k1/5ppp/8/8/8/8/5PPP/3R2K1 w - - 0 1",
    "3r2k1/5ppp/8/8/8/8/5PPP/6K1 b - - 0 1",
];

/// Roots without a legal move: checkmates and stalemates.
pub const TERMINAL: &[&str] = &[
    "7k/6Q1/6K1/8/8/8/8/8 b - - 0 1",
    "rnb1kbnr/pppp1ppp/8/4p3/6Pq/5P2/PPPPP2P/RNBQKBNR w KQkq - 1 3",
    "7k/5Q2/6K1/8/8/8/8/8 b - - 0 1",
    "R5k1/5ppp/8/8/8/8/8/6K1 b - - 0 1",
    "k7/P7/K7/8/8/8/8/8 b - - 0 1",
    "5k2/5P2/5K2/8/8/8/8/8 b - - 0 1",
    "6rk/5Npp/8/8/8/8/8/6K1 b - - 0 1",
    "8/8/8/8/8/5k2/5p2/5K2 w - - 0 1",
    "r1bqkb1r/pppp1Qpp/2n2n2/4p3/2B1P3/8/PPPP1PPP/RNB1K1NR b KQkq - 0 4",
];

/// Low-mobility positions: tiny reachable state spaces (locked pawn chains).
pub const LOCKED: &[&str] = &[
    "4k3/p6p/Pp4pP/1Pp2pP1/2Pp1P2/3P4/8/4K3 w - - 0 1",
    "4k3/p6p/Pp4pP/1Pp2pP1/2Pp1P2/3P4/8/4K3 b - - 0 1",
    "8/k7/p1p1p1p1/P1P1P1P1/8/8/8/K7 w - - 0 1",
    "k7/8/p1p1p1p1/P1P1P1P1/8/8/8/7K b - - 0 1",
    "8/8/8/1k6/pPp1p1p1/P1P1P1P1/8/1K6 w - - 0 1",
    "k7/p7/P7/8/8/8/8/K7 w - - 0 1",
    "1k6/1p6/1P6/8/8/8/8/K7 w - - 0 1",
    "k7/p1p5/P1P5/8/8/8/8/7K w - - 0 1",
    "7k/7p/7P/8/8/8/8/K7 b - - 0 1",
];

pub fn all_corpus() -> Vec<&'static str> {
    let mut v = Vec::new();
    for l in [NORMAL, RIGHTS, SPECIAL, TERMINAL, LOCKED] {
        v.extend_from_slice(l);
    }
    v
}

/// Same placement and side to move, other castling rights / en-passant state.
pub fn siblings(p: &Pos) -> Vec<Pos> {
    let mut out = Vec::new();
    // rights that are physically possible (king and rook on their home squares)
    let mut possible = 0u8;
    if p.board[4] == KING {
        if p.board[7] == ROOK {
            possible |= WK;
        }
        if p.board[0] == ROOK {
            possible |= WQ;
        }
    }
    if p.board[60] == (KING | BLACK_BIT) {
        if p.board[63] == (ROOK | BLACK_BIT) {
            possible |= BK;
        }
        if p.board[56] == (ROOK | BLACK_BIT) {
            possible |= BQ;
        }
    }
    // possible en-passant targets: a pawn of the side that just moved standing on its
    // fourth rank with the two squares behind it empty
    let mut eps: Vec<Option<u8>> = vec![None];
    for f in 0..8u8 {
        if p.side == 1 {
            // white just moved: white pawn on rank 4 (index 3), rank 3 and 2 empty behind
            if p.board[(3 * 8 + f) as usize] == PAWN && p.board[(2 * 8 + f) as usize] == EMPTY && p.board[(8 + f) as usize] == EMPTY {
                eps.push(Some(2 * 8 + f));
            }
        } else if p.board[(4 * 8 + f) as usize] == (PAWN | BLACK_BIT)
            && p.board[(5 * 8 + f) as usize] == EMPTY
            && p.board[(6 * 8 + f) as usize] == EMPTY
        {
            eps.push(Some(5 * 8 + f));
        }
    }
    for mask in 0..16u8 {
        if mask & !possible != 0 {
            continue;
        }
        for ep in &eps {
            if mask == p.castling && *ep == p.ep {
                continue;
            }
            let mut q = p.clone();
            q.castling = mask;
            q.ep = *ep;
            if q.is_sane() {
                out.push(q);
            }
        }
    }
    out
}

/// Seeded random play by the reference rules; stops early at terminal positions.
pub fn random_play(rng: &mut Rng64, start: &Pos, plies: u32) -> (Pos, Vec<Mv>) {
    let mut p = start.clone();
    let mut ms = Vec::new();
    for _ in 0..plies {
        let moves = p.legal_moves();
        if moves.is_empty() {
            break;
        }
        let m = *rng.pick(&moves);
        let q = p.make(m);
        if q.legal_moves().is_empty() {
            break; // keep a legal move available at the end
        }
        p = q;
        ms.push(m);
    }
    (p, ms)
}

fn place(rng: &mut Rng64, pieces: &[u8], side: u8) -> Option<Pos> {
    let mut board = [EMPTY; 64];
    for &pc in pieces {
        loop {
            let s = rng.below(64) as usize;
            if board[s] == EMPTY {
                board[s] = pc;
                break;
            }
        }
    }
    let p = Pos { board, side, castling: 0, ep: None, halfmove: 0, fullmove: 1 };
    if !p.is_sane() {
        return None;
    }
    let wk = p.king_sq(0)? as i8;
    let bk = p.king_sq(1)? as i8;
    if (wk % 8 - bk % 8).abs() <= 1 && (wk / 8 - bk / 8).abs() <= 1 {
        return None;
    }
    Some(p)
}

/// Random legal KQK / KRK position (either colour strong, either side to move).
pub fn random_tb_pos(rng: &mut Rng64) -> Pos {
    loop {
        let strong_white = rng.chance(500);
        let piece = if rng.chance(500) { QUEEN } else { ROOK };
        let x = if strong_white { piece } else { piece | BLACK_BIT };
        let stm = rng.below(2) as u8;
        if let Some(p) = place(rng, &[KING, KING | BLACK_BIT, x], stm) {
            return p;
        }
    }
}

/// Random position whose side to move has at most `max_moves` legal moves (and at least one):
/// a lone king hemmed in, a single check evasion, or a blocked pawn endgame.
pub fn random_forced(rng: &mut Rng64, max_moves: usize) -> Pos {
    loop {
        let p = match rng.below(4) {
            0 | 1 => random_tb_pos(rng),
            2 => {
                // the heavy side has just moved: the bare king is to move
                let mut q = random_heavy(rng);
                let ms = q.legal_moves();
                let m = *rng.pick(&ms);
                q = q.make(m);
                q
            }
            _ => {
                let mut q = random_pawn_endgame(rng);
                let ms = q.legal_moves();
                let m = *rng.pick(&ms);
                q = q.make(m);
                q
            }
        };
        let n = p.legal_moves().len();
        if n >= 1 && n <= max_moves {
            return p;
        }
    }
}

/// Random position with a pawn of the side to move one step from promotion (square in front of
/// it empty), a few enemy pawns and sometimes an enemy piece: the best lines contain a
/// promotion followed by moves of the promoted piece.
pub fn random_promotion_race(rng: &mut Rng64) -> Pos {
    loop {
        let white = rng.chance(500);
        let (c, o) = if white { (0u8, BLACK_BIT) } else { (BLACK_BIT, 0u8) };
        let mut board = [EMPTY; 64];
        let file = rng.below(8) as usize;
        let (from, to) = if white { (48 + file, 56 + file) } else { (8 + file, file) };
        board[from] = PAWN | c;
        let mut put = |pc: u8, lo: usize, hi: usize, board: &mut [u8; 64], rng: &mut Rng64| {
            for _ in 0..40 {
                let s = lo + rng.below((hi - lo) as u64) as usize;
                if board[s] == EMPTY && s != to {
                    board[s] = pc;
                    return;
                }
            }
        };
        put(KING | c, 0, 64, &mut board, rng);
        put(KING | o, 0, 64, &mut board, rng);
        // enemy pawns near their own home ranks, a second own pawn now and then
        for _ in 0..rng.below(4) {
            let (lo, hi) = if white { (40, 56) } else { (8, 24) };
            put(PAWN | o, lo, hi, &mut board, rng);
        }
        if rng.chance(300) {
            let (lo, hi) = if white { (24, 48) } else { (16, 40) };
            put(PAWN | c, lo, hi, &mut board, rng);
        }
        if rng.chance(400) {
            put(*rng.pick(&[KNIGHT, BISHOP, ROOK]) | o, 0, 64, &mut board, rng);
        }
        let p = Pos { board, side: if white { 0 } else { 1 }, castling: 0, ep: None, halfmove: 0, fullmove: 1 };
        if !p.is_sane() {
            continue;
        }
        let (Some(wk), Some(bk)) = (p.king_sq(0), p.king_sq(1)) else { continue };
        let (wk, bk) = (wk as i8, bk as i8);
        if (wk % 8 - bk % 8).abs() <= 1 && (wk / 8 - bk / 8).abs() <= 1 {
            continue;
        }
        if p.legal_moves().iter().any(|m| m.promo != 0) {
            return p;
        }
    }
}

/// Random tablebase position in which the side to move mates in exactly `n` plies.
pub fn tb_win_in(rng: &mut Rng64, tb: &Tb, n: u32) -> Pos {
    loop {
        let p = random_tb_pos(rng);
        if tb.probe(&p) == Some(Val::Win(n)) {
            return p;
        }
    }
}

/// Random tablebase position that is terminal (checkmate or stalemate).
pub fn tb_terminal(rng: &mut Rng64, want_mate: bool) -> Pos {
    loop {
        let p = random_tb_pos(rng);
        if p.legal_moves().is_empty() && p.in_check() == want_mate {
            return p;
        }
    }
}

/// Random position with heavy material against a bare king (many short forced mates).
pub fn random_heavy(rng: &mut Rng64) -> Pos {
    loop {
        let strong_white = rng.chance(500);
        let c = if strong_white { 0 } else { BLACK_BIT };
        let sets: [&[u8]; 5] = [&[QUEEN, QUEEN], &[ROOK, ROOK], &[QUEEN, ROOK], &[QUEEN, BISHOP, KNIGHT], &[ROOK, ROOK, KNIGHT]];
        let set = *rng.pick(&sets);
        let mut pieces = vec![KING, KING | BLACK_BIT];
        for &k in set {
            pieces.push(k | c);
        }
        // the strong side is to move
        let side = if strong_white { 0 } else { 1 };
        if let Some(p) = place(rng, &pieces, side) {
            if !p.legal_moves().is_empty() {
                return p;
            }
        }
    }
}


/// Random endgame with pawns: a strong side (to move) with heavy pieces and pawns against a
/// king that may have a pawn or a knight. Short mates by pawn moves and captures occur here.
pub fn random_pawn_endgame(rng: &mut Rng64) -> Pos {
    loop {
        let strong_white = rng.chance(500);
        let (c, o) = if strong_white { (0, BLACK_BIT) } else { (BLACK_BIT, 0) };
        let sets: [&[u8]; 6] = [&[QUEEN, PAWN], &[ROOK, ROOK, PAWN], &[QUEEN, PAWN, PAWN], &[QUEEN, ROOK], &[ROOK, KNIGHT, PAWN, PAWN], &[QUEEN, KNIGHT, PAWN]];
        let weak: [&[u8]; 4] = [&[], &[PAWN], &[KNIGHT], &[PAWN, PAWN]];
        let mut pieces = vec![KING, KING | BLACK_BIT];
        for &k in *rng.pick(&sets) {
            pieces.push(k | c);
        }
        for &k in *rng.pick(&weak) {
            pieces.push(k | o);
        }
        let side = if strong_white { 0 } else { 1 };
        if let Some(p) = place(rng, &pieces, side) {
            if !p.legal_moves().is_empty() {
                return p;
            }
        }
    }
}

/// Positions (found by `wsim findc17`, re-verified by the solver whenever they are used) with a
/// forced mate in <= 3 plies, at least two first moves that keep a forced mate, one of them a pawn
/// move or a capture (given as the second field).
pub const IRREVERSIBLE_MATES: &[(&str, &str)] = &[
    ("1K1k4/2N5/8/3rq3/8/8/8/8 b - - 0 1", "e5c7"),
    ("1K1k4/7N/8/7q/8/8/1p6/8 b - - 0 1", "b2b1q"),
    ("1K1k4/7Q/6p1/8/4p3/4R3/8/8 w - - 0 1", "e3e4"),
    ("1K2R3/6Pk/8/p7/8/2p5/8/3R4 w - - 0 1", "g7g8q"),
    ("1K2k3/6Q1/8/8/8/3p4/1R3p2/8 w - - 0 1", "b2f2"),
    ("1K2k3/8/1R5p/p7/7Q/8/8/8 w - - 0 1", "h4h6"),
    ("1K2k3/8/6P1/4N3/8/8/2Q5/8 w - - 0 1", "g6g7"),
    ("1K2n3/5q2/7p/8/8/8/8/1kN5 b - - 0 1", "b1c1"),
    ("1K3k2/R7/6P1/6R1/8/8/8/8 w - - 0 1", "g6g7"),
    ("1K6/1P6/k5r1/1q6/8/6P1/8/8 b - - 0 1", "b5b7"),
    ("1K6/2r5/3k4/2r2p2/8/8/8/8 b - - 0 1", "f5f4"),
    ("1K6/3k1r2/8/8/6r1/8/2p5/8 b - - 0 1", "c2c1q"),
    ("1K6/3r4/3r4/1k6/8/8/5p2/8 b - - 0 1", "f2f1q"),
    ("1K6/3r4/8/q6P/8/5k2/8/8 b - - 0 1", "a5h5"),
    ("1K6/4k3/8/8/8/3r4/1N6/1q6 b - - 0 1", "b1b2"),
    ("1K6/4n3/1P6/8/1q6/8/p7/2k5 b - - 0 1", "a2a1q"),
    ("1K6/4q3/8/8/8/8/1k4Nr/8 b - - 0 1", "h2g2"),
    ("1K6/4r2q/2P5/2Pk4/8/8/8/8 b - - 0 1", "d5c6"),
    ("1K6/5N1r/8/8/2k5/8/6q1/8 b - - 0 1", "h7f7"),
    ("1K6/5r2/8/6N1/2k5/8/3q4/8 b - - 0 1", "d2g5"),
    ("1K6/7q/6k1/8/8/8/5ppP/8 b - - 0 1", "f2f1q"),
    ("1K6/7r/8/7P/8/5q2/8/7k b - - 0 1", "f3h5"),
    ("1K6/8/1P2q3/8/8/8/5k2/2r5 b - - 0 1", "e6b6"),
    ("1K6/8/2k5/7q/7n/8/p7/8 b - - 0 1", "a2a1q"),
    ("1K6/8/2k5/8/1p2q3/8/1P6/8 b - - 0 1", "b4b3"),
    ("1K6/8/3k3q/4r3/8/8/3P4/8 b - - 0 1", "h6d2"),
    ("1K6/8/4P3/7k/2r5/6p1/8/6r1 b - - 0 1", "g3g2"),
    ("1K6/8/4Pr2/2q1k3/8/8/8/8 b - - 0 1", "e5e6"),
    ("1K6/8/4k3/8/2q5/8/1p6/8 b - - 0 1", "b2b1q"),
    ("1K6/8/6Q1/8/8/7k/R7/n7 w - - 0 1", "a2a1"),
    ("1K6/8/8/2k1p3/8/8/q5p1/8 b - - 0 1", "g2g1q"),
    ("1K6/8/8/8/8/6r1/3p1r2/k7 b - - 0 1", "d2d1q"),
    ("1K6/8/k2n2q1/8/8/P7/6p1/8 b - - 0 1", "g2g1q"),
    ("1K6/8/k7/7q/2P5/8/p7/8 b - - 0 1", "a2a1q"),
    ("1K6/p6r/8/2r5/4k3/8/8/8 b - - 0 1", "a7a6"),
    ("1K6/rP6/1k6/5qP1/8/8/8/8 b - - 0 1", "a7b7"),
    ("1Kn1R3/8/P7/8/8/8/6R1/k7 w - - 0 1", "b8c8"),
    ("1N5r/6k1/5p2/8/8/8/K7/5r2 b - - 0 1", "h8b8"),
    ("1N6/1R3P2/8/8/6p1/6P1/5K2/7k w - - 0 1", "f7f8q"),
    ("1N6/5qp1/8/8/2k5/8/K4p2/8 b - - 0 1", "f2f1q"),
    ("1N6/8/1p6/8/8/r6r/8/1K1k4 b - - 0 1", "b6b5"),
    ("1N6/8/1r3r2/8/4p3/6k1/8/7K b - - 0 1", "e4e3"),
    ("1N6/8/3Q4/P6k/5K2/8/8/8 w - - 0 1", "a5a6"),
    ("1N6/8/4k3/5r2/5q2/8/8/7K b - - 0 1", "f4b8"),
    ("1N6/8/6Q1/8/P4K2/8/8/7k w - - 0 1", "a4a5"),
    ("1N6/8/6r1/8/7K/8/2p5/k2r4 b - - 0 1", "c2c1q"),
    ("1Q2N3/7k/P7/8/1p5K/8/8/8 w - - 0 1", "b8b4"),
    ("1Q5R/8/4Kp2/k7/8/7p/8/8 w - - 0 1", "e6f6"),
    ("1Q6/2K2R2/8/8/8/8/1n6/7k w - - 0 1", "b8b2"),
    ("1Q6/2K5/8/8/P7/8/k2N4/8 w - - 0 1", "a4a5"),
    ("1Q6/3R4/k7/8/8/8/3p1K2/8 w - - 0 1", "d7d2"),
    ("1Q6/5pR1/5K2/8/8/8/k7/8 w - - 0 1", "f6f7"),
    ("1Q6/7P/8/8/8/K7/8/7k w - - 0 1", "h7h8q"),
    ("1Q6/8/1R6/k7/6p1/8/3p4/2K5 w - - 0 1", "c1d2"),
    ("1Q6/8/2R5/k5n1/7K/8/8/8 w - - 0 1", "h4g5"),
    ("1Q6/8/8/8/P7/3K4/k7/1N6 w - - 0 1", "a4a5"),
    ("1Q6/P7/2p5/4p3/8/k7/8/4K3 w - - 0 1", "a7a8q"),
    ("1R1K4/8/8/8/8/8/2R4P/6k1 w - - 0 1", "h2h3"),
    ("1R4R1/3P4/3K4/7k/p4p2/8/8/8 w - - 0 1", "d7d8q"),
    ("1R5n/8/7P/8/8/8/6RK/4k3 w - - 0 1", "h6h7"),
];


/// Random position rich in piece kinds (for special mating patterns).
pub fn random_rich(rng: &mut Rng64) -> Pos {
    loop {
        let strong_white = rng.chance(500);
        let (c, o) = if strong_white { (0, BLACK_BIT) } else { (BLACK_BIT, 0) };
        let kinds = [QUEEN, ROOK, ROOK, BISHOP, BISHOP, KNIGHT, KNIGHT, PAWN, PAWN, PAWN];
        let mut pieces = vec![KING, KING | BLACK_BIT];
        let ns = 2 + rng.below(4) as usize;
        for _ in 0..ns {
            pieces.push(*rng.pick(&kinds) | c);
        }
        let nw = rng.below(4) as usize;
        for _ in 0..nw {
            pieces.push(*rng.pick(&[PAWN, PAWN, KNIGHT, BISHOP, ROOK]) | o);
        }
        let side = if strong_white { 0 } else { 1 };
        if let Some(mut p) = place(rng, &pieces, side) {
            // sometimes give an en-passant opportunity a chance: a defender pawn that "just" made a double step
            if rng.chance(150) {
                for f in 0..8u8 {
                    let (sq, behind, behind2, want) = if side == 0 { (4 * 8 + f, 5 * 8 + f, 6 * 8 + f, PAWN | BLACK_BIT) } else { (3 * 8 + f, 2 * 8 + f, 8 + f, PAWN) };
                    if p.board[sq as usize] == want && p.board[behind as usize] == EMPTY && p.board[behind2 as usize] == EMPTY {
                        p.ep = Some(behind);
                        break;
                    }
                }
            }
            if p.is_sane() && !p.legal_moves().is_empty() {
                return p;
            }
        }
    }
}

/// Mate-in-one positions whose mating move is of a special kind (found by `wsim findmates`,
/// re-verified by the solver whenever used): kind, position, mating move.
pub const SPECIAL_MATES: &[(&str, &str, &str)] = &[
    ("capture", "3k1N2/rr5p/B2r4/K7/3Bb3/8/8/8 b - - 0 1", "a7a6"),
    ("capture", "8/8/1P6/4n2K/5q2/8/N6B/3kb1q1 b - - 0 1", "f4h2"),
    ("capture", "k7/7n/8/8/4q3/8/4P3/4K1n1 b - - 0 1", "e4e2"),
    ("capture", "7B/4kq2/8/8/6q1/4KP2/1q6/8 b - - 0 1", "g4f3"),
    ("capture", "K7/8/7k/8/P3r3/1r3p2/8/4R3 b - - 0 1", "e4a4"),
    ("capture", "1k6/1n2Q1n1/K7/1Q6/8/8/b1P5/8 w - - 0 1", "b5b7"),
    ("capture", "4B3/5K1k/8/2R4p/8/8/8/8 w - - 0 1", "c5h5"),
    ("capture", "8/8/7P/K1R1R3/R2r4/8/3k4/3B4 w - - 0 1", "a4d4"),
    ("capture", "8/8/8/6RB/2K4k/2Q3n1/8/8 w - - 0 1", "c3g3"),
    ("capture", "3Q4/2p2Q2/5r2/6k1/4p3/8/2K5/3B4 w - - 0 1", "f7f6"),
    ("capture", "2KR4/k7/1q6/3N1nq1/8/8/8/8 b - - 0 1", "b6d8"),
    ("capture", "3k2K1/b4r1N/7q/2rB4/8/6R1/8/1q6 b - - 0 1", "b1h7"),
    ("capture", "1k6/7b/8/7q/n2p4/P7/8/2KN1q2 b - - 0 1", "h5d1"),
    ("capture", "7R/4Q3/3nR3/p2k4/8/6KN/4b3/2R5 w - - 0 1", "e7d6"),
    ("discovered", "K1n3rk/5r2/8/8/8/8/2p5/8 b - - 0 1", "c8a7"),
    ("discovered", "1r6/2K5/8/2p5/b1k5/6n1/7b/8 b - - 0 1", "g3f1"),
    ("discovered", "1B5k/3R3p/5K2/8/3B4/8/4N3/B4n2 w - - 0 1", "f6f7"),
    ("discovered", "4QR2/5K1k/8/n6N/3R3Q/6r1/3r4/8 w - - 0 1", "h5g7"),
    ("discovered", "3qbK2/1n5p/6k1/2N4q/8/3P4/8/7N b - - 0 1", "e8c6"),
    ("discovered", "8/3q4/8/4r3/3n4/6p1/6P1/1k1K4 b - - 0 1", "d4c2"),
    ("discovered", "8/8/8/4q3/4p3/2k4b/8/Kb5b b - - 0 1", "c3c2"),
    ("discovered", "RB4k1/1R6/K7/8/8/4b3/2B5/7B w - - 0 1", "b8f4"),
    ("discovered", "8/8/4k3/b3P3/3qp3/2r5/4p3/4K3 b - - 0 1", "c3c2"),
    ("discovered", "k7/2K3p1/B7/8/R7/8/3B2R1/8 w - - 0 1", "a6c4"),
    ("discovered", "2Q5/k7/8/2R4P/3QKN2/8/8/8 w - - 0 1", "c5c2"),
    ("discovered", "2r3Q1/8/8/1R3K2/P7/8/8/k2N3R w - - 0 1", "d1c3"),
    ("discovered", "8/4k3/r4r2/8/b7/1r3q2/8/K7 b - - 0 1", "a4d7"),
    ("discovered", "1r1k3K/b2r4/3b2r1/8/8/8/8/8 b - - 0 1", "d8c7"),
    ("double", "5N2/B7/8/8/7n/4R1K1/1N6/1B4k1 w - - 0 1", "e3e1"),
    ("double", "8/2N5/8/8/1K3Q2/3R1N1k/3R4/8 w - - 0 1", "f3g1"),
    ("double", "8/8/2b5/1k2p3/8/6p1/6rb/7K b - - 0 1", "g2g1"),
    ("double", "7k/8/K4R2/N6B/2Q5/8/1B6/8 w - - 0 1", "f6h6"),
    ("double", "8/8/r7/8/n7/6R1/K2n4/2b1k1q1 b - - 0 1", "a4c3"),
    ("double", "4B1N1/8/6r1/1R3Q1N/k7/2K2b2/8/3b4 w - - 0 1", "b5a5"),
    ("double", "6RQ/7B/2K5/8/2b5/7k/7B/8 w - - 0 1", "h7f5"),
    ("double", "1r6/3k4/K5p1/8/b2b4/8/3P4/r7 b - - 0 1", "a4b5"),
    ("double", "2k4K/4r3/5r1n/6P1/3q4/8/8/3N4 b - - 0 1", "f6f8"),
    ("double", "1QN3k1/K7/3r2P1/7p/3B2p1/8/8/8 w - - 0 1", "c8e7"),
    ("double", "7k/5r2/7q/8/1B1p4/3PN1qn/8/7K b - - 0 1", "h3f2"),
    ("double", "8/5K2/8/2br4/8/1q2r1q1/2k5/8 b - - 0 1", "d5f5"),
    ("double", "k7/b7/p6n/8/1P6/4P3/2K3R1/1N5B w - - 0 1", "g2g8"),
    ("double", "3K3k/2B1R3/5R2/8/8/1R6/6p1/B7 w - - 0 1", "f6f8"),
    ("pawn", "4n3/5QR1/1K5k/8/6P1/8/7P/8 w - - 0 1", "g4g5"),
    ("pawn", "3rN2R/8/8/8/8/4pk2/3p3q/5K2 b - - 0 1", "e3e2"),
    ("pawn", "8/8/2n5/4b3/8/3p3p/6R1/3n1k1K b - - 0 1", "h3g2"),
    ("pawn", "8/5n2/4K2R/6k1/B6R/8/5P2/8 w - - 0 1", "f2f4"),
    ("pawn", "8/8/1n6/1pr5/8/K1k1r3/1r6/8 b - - 0 1", "b5b4"),
    ("pawn", "3k1K2/2R5/4Pp2/6p1/2B5/6Q1/8/8 w - g6 0 1", "e6e7"),
    ("pawn", "4k3/1b4K1/5P2/5N1P/3R1P2/8/8/8 w - - 0 1", "f6f7"),
    ("pawn", "8/8/8/8/8/2b1b1pk/8/7K b - - 0 1", "g3g2"),
    ("pawn", "k5N1/4bb2/BPN5/8/K7/3Q4/8/8 w - - 0 1", "b6b7"),
    ("pawn", "8/8/1K6/4Q2R/3p2k1/3N4/4PP2/8 w - - 0 1", "f2f3"),
    ("pawn", "1q6/6k1/8/8/1p6/4r3/K7/2q5 b - - 0 1", "b4b3"),
    ("pawn", "8/8/B7/1R6/2k5/1R4n1/3P4/B5K1 w - - 0 1", "d2d3"),
    ("pawn", "4b3/1p2r3/4q3/2K5/8/1k3n2/3B4/8 b - - 0 1", "b7b6"),
    ("pawn", "2K3k1/4R3/5Q1P/8/8/1P6/8/8 w - - 0 1", "h6h7"),
    ("promotion", "8/5p2/1P2P3/8/8/1k6/3p4/1K6 b - - 0 1", "d2d1r"),
    ("promotion", "6k1/P1R1P3/8/2K5/5B2/3Q4/8/8 w - - 0 1", "e7e8q"),
    ("promotion", "b4B2/8/4qP2/5k2/8/8/1pK2n2/4q3 b - - 0 1", "b2b1q"),
    ("promotion", "2b5/p7/8/4n3/4k3/8/1r4p1/3K4 b - - 0 1", "g2g1r"),
    ("promotion", "8/6n1/5b2/1k6/8/B7/Kp5b/2q5 b - - 0 1", "b2b1q"),
    ("promotion", "7n/q7/8/3r4/6b1/8/1k5p/3BK3 b - - 0 1", "h2h1q"),
    ("promotion", "4k3/2P3R1/2R5/5P2/1K6/7P/8/8 w - - 0 1", "c7c8q"),
    ("promotion", "8/4p3/r7/3k4/6b1/6b1/5p2/7K b - - 0 1", "f2f1q"),
    ("promotion", "2r5/8/8/b7/4nb2/8/3k3p/5K2 b - - 0 1", "h2h1q"),
    ("promotion", "8/4q3/5k1K/8/2p1b3/8/7p/b7 b - - 0 1", "h2h1r"),
    ("promotion", "2k2n2/b3P1R1/8/8/2pR4/8/4K3/Q7 w - - 0 1", "e7e8r"),
    ("promotion", "2k5/4P2R/8/P7/6K1/8/8/8 w - - 0 1", "e7e8q"),
    ("promotion", "7k/8/8/4q3/4B3/1p6/5p2/7K b - - 0 1", "f2f1q"),
    ("promotion", "8/8/6r1/8/6kp/7N/r4p2/3K4 b - - 0 1", "f2f1q"),
];


/// Opening lines (coordinate moves from the start position) that end where castling is a
/// common continuation: the position is very likely in the engine's book with a castling move.
pub const BOOK_CASTLE_LINES: &[&str] = &[
    "e2e4 e7e5 g1f3 b8c6 f1b5 a7a6 b5a4 g8f6",
    "e2e4 e7e5 g1f3 b8c6 f1c4 f8c5 c2c3 g8f6 d2d3 d7d6",
    "e2e4 e7e5 g1f3 b8c6 f1c4 g8f6 d2d3 f8c5",
    "d2d4 d7d5 c2c4 e7e6 b1c3 g8f6 c1g5 f8e7 e2e3",
    "d2d4 g8f6 c2c4 e7e6 g1f3 b7b6 g2g3 c8b7 f1g2 f8e7",
    "e2e4 c7c5 g1f3 d7d6 d2d4 c5d4 f3d4 g8f6 b1c3 g7g6 f1e2 f8g7",
    "d2d4 g8f6 c2c4 g7g6 b1c3 f8g7 e2e4 d7d6 g1f3",
    "e2e4 e7e6 d2d4 d7d5 b1c3 g8f6 c1g5 f8e7 e4e5 f6d7 g5e7 d8e7 f2f4",
    "g1f3 d7d5 g2g3 g8f6 f1g2 e7e6",
    "c2c4 e7e5 b1c3 g8f6 g1f3 b8c6 g2g3 f8b4 f1g2",
];

/// The position after one of the lines above (possibly cut short by a couple of plies).
pub fn book_castle_position(rng: &mut Rng64) -> Pos {
    let line = *rng.pick(BOOK_CASTLE_LINES);
    let toks: Vec<&str> = line.split_ascii_whitespace().collect();
    let cut = toks.len() - rng.below(3) as usize;
    let mut p = Pos::start();
    for t in &toks[..cut] {
        match Mv::parse(t) {
            Some(m) if p.is_legal(m) => p = p.make(m),
            _ => break,
        }
    }
    p
}


/// Move sequences that exercise each rule of the position update (castling rights lost by
/// moving or losing a rook or king, en passant, promotions, castling itself).
pub const SPECIAL_LINES: &[(&str, &str)] = &[
    ("r1bqk2r/pppp1pb1/2n2n2/4p3/4P3/2N2N2/PPPP1P2/R1BQKB1R w KQkq - 0 1", "h1h8 g7h8"),
    ("r3kbnr/1ppqpppp/2n5/8/8/2N5/1PPQPPPP/R3KBNR w KQkq - 0 1", "a1a8 c6b8 a8b8"),
    ("r3k2r/8/8/8/8/8/8/R3K2R w KQkq - 0 1", "h1h8 e8e7"),
    ("r3k2r/8/8/8/8/8/8/R3K2R b KQkq - 0 1", "a8a1 e1e2"),
    ("r3k2r/8/8/8/8/6n1/8/R3K2R b KQkq - 0 1", "g3h1"),
    ("r3k2r/8/8/8/8/8/8/R3K2R w KQkq - 0 1", "h1g1 h8g8 g1h1 g8h8"),
    ("r3k2r/8/8/8/8/8/8/R3K2R w KQkq - 0 1", "e1e2 e8e7 e2e1 e7e8"),
    ("r3k2r/pppq1ppp/2npbn2/2b1p3/2B1P3/2NPBN2/PPPQ1PPP/R3K2R w KQkq - 0 1", "e1g1 e8c8"),
    ("r3k2r/pppq1ppp/2npbn2/2b1p3/2B1P3/2NPBN2/PPPQ1PPP/R3K2R w KQkq - 0 1", "e1c1 e8g8"),
    ("rnbqkbnr/ppp1p1pp/8/3pPp2/8/8/PPPP1PPP/RNBQKBNR w KQkq f6 0 3", "e5f6"),
    ("rnbqkbnr/pppp1ppp/8/8/3PpP2/8/PPP1P1PP/RNBQKBNR b KQkq f3 0 3", "e4f3"),
    ("rnbqkbnr/pppp1ppp/8/8/4p3/8/PPPP1PPP/RNBQKBNR w KQkq - 0 3", "d2d4 e4d3"),
    ("n1n5/PPPk4/8/8/8/8/4Kppp/5N1N b - - 0 1", "g2h1q"),
    ("n1n5/PPPk4/8/8/8/8/4Kppp/5N1N w - - 0 1", "b7a8n"),
    ("8/P6k/8/8/8/8/7K/8 w - - 0 1", "a7a8r h7g7"),
    ("r3k2r/1P6/8/8/8/8/8/4K3 w kq - 0 1", "b7a8q"),
];

/// Forced mates in three plies whose first move must be an under-promotion (`wsim findunder`).
pub const UNDERPROMOTION_MATES: &[(&str, &str)] = &[
    ("8/1R2P3/7k/5R2/8/3P3B/6K1/4N3 w - - 0 1", "e7e8r"),
    ("8/1P3B2/k7/N5K1/R7/2P5/8/8 w - - 0 1", "b7b8r"),
    ("8/2P5/1N6/1k6/1N6/K7/3R4/1N6 w - - 0 1", "c7c8n"),
    ("n3k3/8/8/4n2P/8/7K/4pb1P/3b4 b - - 0 1", "e2e1n"),
    ("8/1P5r/k7/n2R4/8/8/5K2/1R6 w - - 0 1", "b7b8n"),
    ("5R2/3P4/1P2k3/7K/3P4/8/8/R7 w - - 0 1", "d7d8r"),
    ("2q1n3/8/8/1k6/3p3b/1K6/p7/6n1 b - - 0 1", "a2a1r"),
    ("7K/5k2/8/8/8/p4p2/1p2b3/8 b - - 0 1", "b2b1r"),
    ("8/3n4/2kn4/5r2/2B5/2bK4/2r1p3/8 b - - 0 1", "e2e1n"),
    ("8/4P3/R1p4k/8/8/R1Q2PN1/3K4/8 w - - 0 1", "e7e8n"),
    ("8/4k1P1/6K1/8/3R4/8/8/4N3 w - - 0 1", "g7g8r"),
    ("8/P1P5/7p/kr1R4/7Q/K7/R7/2N5 w - - 0 1", "c7c8n"),
    ("8/8/7q/8/8/p3pnK1/1k4p1/8 b - - 0 1", "g2g1n"),
    ("1n6/P7/k7/3R4/8/3N2B1/8/6K1 w - - 0 1", "a7b8r"),
    ("6b1/1P2k2P/7Q/8/B7/7K/8/8 w - - 0 1", "h7g8b"),
    ("8/4b1r1/8/8/8/8/1k2p2K/5B2 b - - 0 1", "e2f1r"),
    ("8/1N4P1/1N6/8/4B3/8/2K4P/k7 w - - 0 1", "g7g8r"),
    ("8/8/2b5/4r3/7K/3p1b2/k6p/8 b - - 0 1", "h2h1n"),
    ("8/2k1b3/1r6/8/8/7K/5pp1/7b b - - 0 1", "g2g1r"),
    ("8/5b1b/5P2/1b6/k7/8/pK2p3/8 b - - 0 1", "e2e1b"),
    ("1b6/k5r1/8/1p6/8/7K/4p3/8 b - - 0 1", "e2e1r"),
    ("7K/B1P5/3k4/8/2B2P2/8/4Q3/7N w - - 0 1", "c7c8r"),
    ("3n4/8/5p1n/8/4b2K/5kn1/5p2/8 b - - 0 1", "f2f1r"),
    ("6N1/3K1P2/8/7k/R7/P4P2/8/3Q4 w - - 0 1", "f7f8n"),
    ("2R5/5P2/4k3/8/1N1Q4/8/8/5K2 w - - 0 1", "f7f8r"),
    ("7n/4r3/k7/2r5/5K2/8/5pb1/8 b - - 0 1", "f2f1n"),
    ("8/2Q3P1/5k2/8/3K3N/8/8/8 w - - 0 1", "g7g8r"),
    ("8/P4R2/1k6/8/P1K5/8/4N2N/8 w - - 0 1", "a7a8r"),
    ("8/8/1p6/3nk3/5N2/3Kp1B1/4pN2/1r3n2 b - - 0 1", "e2e1n"),
    ("8/8/4p3/8/4qk2/8/5p1K/6N1 b - - 0 1", "f2f1n"),
    ("8/6q1/3b4/1k6/6N1/1K6/p1p3b1/8 b - - 0 1", "a2a1n"),
    ("k7/8/8/3p4/p7/2b1K3/5p1q/8 b - - 0 1", "f2f1r"),
    ("1r1b1Nn1/2p5/3k3N/7B/8/K7/1p2r3/8 b - - 0 1", "b2b1n"),
    ("8/P4P2/5PR1/7k/5K2/8/2P5/8 w - - 0 1", "f7f8n"),
    ("n7/7K/2k2b2/8/6r1/n7/2p2n2/8 b - - 0 1", "c2c1r"),
    ("8/8/1q6/5B2/b4P2/8/K2p4/6k1 b - - 0 1", "d2d1n"),
    ("8/3R1P2/5Nk1/8/5K2/8/5N2/8 w - - 0 1", "f7f8n"),
    ("5n2/2P5/k1B5/5K1Q/8/8/3Q4/8 w - - 0 1", "c7c8n"),
    ("8/1P5R/k2B4/8/K7/8/3R4/8 w - - 0 1", "b7b8n"),
    ("5N2/6P1/5k2/8/5K2/4Q3/4P3/8 w - - 0 1", "g7g8r"),
];
