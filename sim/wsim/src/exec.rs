//! Runs one simulated execution: a body (the "world" task) under shuttle with the seeded
//! scheduler, catching whatever the code under test does to it.

use std::any::Any;
use std::cell::RefCell;
use std::panic::{self, AssertUnwindSafe};
use std::sync::{Mutex, Once};

use shuttle::{Config, FailurePersistence, MaxSteps, Runner};
use weechess_simrt::world::{self, Run, HARNESS_ABORT};

use crate::sched::{Sched, SchedOut, SchedSpec, LAST};

#[derive(Clone, Debug, PartialEq, Eq)]
pub enum Outcome {
    Completed,
    /// a task of the code under test panicked: message, file:line
    Panic { msg: String, loc: String },
    /// the harness aborted the run because a stated bound was exceeded
    Abort { msg: String },
    /// every unfinished attached task is blocked
    Deadlock { msg: String },
    /// the scheduler's step cap was reached
    StepCap,
}

pub struct ExecOut<R> {
    pub outcome: Outcome,
    pub value: Option<R>,
    pub run: Option<Run>,
    pub sched: SchedOut,
}

thread_local! {
    static OUT: RefCell<Option<Box<dyn Any>>> = const { RefCell::new(None) };
    static LAST_PANIC: RefCell<Option<(String, String)>> = const { RefCell::new(None) };
    static IN_EXEC: std::cell::Cell<bool> = const { std::cell::Cell::new(false) };
}

fn payload_msg(p: &(dyn Any + Send)) -> String {
    if let Some(s) = p.downcast_ref::<&str>() {
        s.to_string()
    } else if let Some(s) = p.downcast_ref::<String>() {
        s.clone()
    } else {
        "<non-string panic payload>".to_string()
    }
}

fn base_config() -> Config {
    let mut c = Config::new();
    c.stack_size = 4 << 20;
    c.failure_persistence = FailurePersistence::None;
    c.max_steps = MaxSteps::None;
    c.silence_warnings = true;
    c.ungraceful_shutdown_config.immediately_return_on_panic = true;
    c
}

/// Install the quiet panic hook (after shuttle has installed its own, once).
pub fn init() {
    static INIT: Once = Once::new();
    INIT.call_once(|| {
        // a trivial execution makes shuttle install its hook; ours then replaces it
        let spec = SchedSpec { seed: 0, strategy: crate::sched::Strategy::Uniform, trace: None, step_cap: 1000 };
        Runner::new(Sched::new(spec), base_config()).run(|| {});
        let verbose = std::env::var("WSIM_VERBOSE").is_ok();
        panic::set_hook(Box::new(move |info| {
            let msg = payload_msg(info.payload());
            let loc = info
                .location()
                .map(|l| {
                    let f = l.file();
                    let short = f.strip_prefix("/repo/").unwrap_or(f);
                    let short = match short.find("/library/") {
                        Some(i) => &short[i + 1..],
                        None => short,
                    };
                    format!("{}:{}", short, l.line())
                })
                .unwrap_or_else(|| "?".to_string());
            // a panic outside a simulated execution is a bug of the harness itself: never silent
            if verbose || !IN_EXEC.with(|f| f.get()) {
                eprintln!("[wsim] panic: {} at {}", msg, loc);
            }
            LAST_PANIC.with(|p| {
                let mut p = p.borrow_mut();
                if p.is_none() {
                    *p = Some((msg, loc));
                }
            });
        }));
    });
}

pub fn execute<R: 'static>(spec: &SchedSpec, run: Run, body: impl FnOnce() -> R + Send + 'static) -> ExecOut<R> {
    init();
    LAST_PANIC.with(|p| *p.borrow_mut() = None);
    OUT.with(|o| *o.borrow_mut() = None);
    let body = Mutex::new(Some(body));
    let run_cell = Mutex::new(Some(RunBox(run)));
    let runner = Runner::new(Sched::new(spec.clone()), base_config());
    IN_EXEC.with(|f| f.set(true));
    let res = panic::catch_unwind(AssertUnwindSafe(move || {
        runner.run(move || {
            let body = body.lock().unwrap().take().expect("single execution");
            let run = run_cell.lock().unwrap().take().expect("single execution").0;
            world::begin(run);
            let v = body();
            let run = world::end();
            OUT.with(|o| *o.borrow_mut() = Some(Box::new((v, run)) as Box<dyn Any>));
        })
    }));
    IN_EXEC.with(|f| f.set(false));
    let sched = LAST.with(|l| std::mem::take(&mut *l.borrow_mut()));
    match res {
        Ok(_) => {
            let out = OUT.with(|o| o.borrow_mut().take());
            match out.and_then(|b| b.downcast::<(R, Option<Run>)>().ok()) {
                Some(b) => {
                    let (v, run) = *b;
                    ExecOut { outcome: Outcome::Completed, value: Some(v), run, sched }
                }
                None => {
                    let run = world::end_abnormal();
                    ExecOut { outcome: Outcome::StepCap, value: None, run, sched }
                }
            }
        }
        Err(payload) => {
            let run = world::end_abnormal();
            let recorded = LAST_PANIC.with(|p| p.borrow_mut().take());
            let pmsg = payload_msg(payload.as_ref());
            let (msg, loc) = recorded.unwrap_or((pmsg.clone(), "?".to_string()));
            let outcome = if msg.starts_with(HARNESS_ABORT) {
                Outcome::Abort { msg: msg[HARNESS_ABORT.len()..].trim().to_string() }
            } else if msg.starts_with("deadlock!") || pmsg.starts_with("deadlock!") {
                Outcome::Deadlock { msg }
            } else {
                Outcome::Panic { msg, loc }
            };
            ExecOut { outcome, value: None, run, sched }
        }
    }
}

/// `Run` holds shuttle handles that are only touched inside the execution.
struct RunBox(Run);
unsafe impl Send for RunBox {}
