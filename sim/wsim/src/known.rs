//! Known findings: genuine defects of the code under test that are recorded rather than
//! repaired. Read-only at run time.

use serde::Deserialize;

use crate::report::Violation;

#[derive(Deserialize, Clone, Debug)]
pub struct Known {
    pub property: String,
    /// exact signature, or a prefix ending in '*'
    pub signature: String,
    pub what: String,
}

#[derive(Deserialize, Default)]
pub struct KnownFile {
    #[serde(default)]
    pub known: Vec<Known>,
    #[serde(default)]
    pub fixed: Vec<String>,
}

impl Known {
    pub fn matches(&self, v: &Violation) -> bool {
        if self.property != v.property {
            return false;
        }
        match self.signature.strip_suffix('*') {
            Some(p) => v.signature.starts_with(p),
            None => v.signature == self.signature,
        }
    }
}

pub fn load(path: &std::path::Path) -> Vec<Known> {
    match std::fs::read_to_string(path) {
        Ok(t) => serde_json::from_str::<KnownFile>(&t).map(|f| f.known).unwrap_or_else(|e| {
            eprintln!("HARNESS-ERROR: cannot parse {}: {}", path.display(), e);
            std::process::exit(2)
        }),
        Err(_) => Vec::new(),
    }
}
