#![recursion_limit = "512"]
//! wsim — deterministic simulation with fault injection for weechess-rs.
//!
//!   wsim check <ID> [--tier quick|thorough] [--seed N] [--runs N] [--jobs N] [--secs N]
//!   wsim replay <file>
//!   wsim selfcheck oracle|determinism
//!   wsim one <ID> <index> [--seed N]        (debug: one run, verbose)

mod batch;
mod bridge;
mod cases;
mod corpus;
mod exec;
mod known;
mod malformed;
mod replay;
mod report;
mod rng;
mod sched;
mod search;
mod table;
mod uci;

use std::path::PathBuf;

pub struct Ctx {
    pub tb: refchess::tb::Tb,
    pub known: Vec<known::Known>,
    pub verif_dir: PathBuf,
    /// liveness bound B (nodes a worker may still search after the cancellation signal)
    pub post_cancel_bound: u64,
}

pub const CLAIMED: &[&str] = &["C03", "C04", "C06", "C07", "C14", "C15", "C17", "C18", "C19"];

pub fn expected_probes(prop: &str) -> Vec<&'static str> {
    match prop {
        "C03" => vec!["multi-worker-iteration", "table-more-than-half-full", "stop@global-node"],
        "C04" => vec![
            "cancel-observed-mid-iteration",
            "terminal-root-searched",
            "stopped-search-returned",
            "stop@world-step",
            "stop@worker-node",
            "stop@global-node",
            "stop@iteration-start",
            "stop-after-completion",
            "stop-repeated",
            "drop-receiver",
            "drop-sender",
            "stall-receiver",
            "go-on-terminal-position",
        ],
        "C06" => vec!["multi-worker-iteration"],
        "C07" => vec![
            "go-while-search-running",
            "stop-while-search-running",
            "position-while-search-running",
            "isready-while-search-running",
            "quit-while-search-running",
            "eof-while-search-running",
            "stop-after-completion",
            "book-answer",
            "search-answer",
            "cancel-observed-mid-iteration",
            "timer-sleeps",
            "clock-jump",
        ],
        "C14" => vec!["malformed-line", "isready-while-search-running"],
        "C15" => vec!["concurrent-overlapping-ops", "displacement", "same-key-overwrite", "bucket-overflow", "miss-after-possible-displacement"],
        "C17" => vec!["multi-worker-iteration"],
        "C18" => vec!["ucinewgame-while-search-running", "probe-transcripts-equal", "stop-after-completion"],
        "C19" => vec![],
        _ => vec![],
    }
}

pub fn coverage_rule(prop: &str) -> String {
    let common = "one run = one explicit case (workload + fault plan, generated from the run seed) executed once under one seeded schedule; a run is non-trivial when at least one scheduling decision had two or more runnable tasks and the case itself involves concurrency, faults or history; distinct = distinct (case hash, decision-trace hash) pairs";
    match prop {
        "C15" => format!("table-level world: 1..32 client tasks issuing insert/find/entries on one table built through the verif hook, keys congruent modulo tables*buckets plus extremes, dims down to 1x1; {}", common),
        "C03" | "C04" | "C06" | "C17" | "C19" => format!("search-level world: chains of searches sharing one artifact through Searcher::analyze or verif::analyze_sync with explicit worker counts, Stop/drop faults keyed to world steps and node/iteration probes; {}", common),
        _ => format!("UCI-level world: the real Client::exec loop fed through simulated stdin/clock/output with generated command sessions and drawn timing; {}", common),
    }
}

pub fn assumptions(prop: &str) -> Vec<String> {
    let mut v = vec![
        "shuttle models locks, channels and atomics as sequentially consistent; weak-memory effects are not explored".to_string(),
        "the rayon stub runs every item of the parallel iterator as its own task (a superset of rayon's interleavings)".to_string(),
        "oracles are independent of the repository: refchess (validated against published perft counts), retrograde KQK/KRK tablebases, bounded mate solver".to_string(),
        "sampling, not proof: the verdict covers the seeds, strategies and bounds reported here".to_string(),
    ];
    match prop {
        "C04" => v.push("'short bounded time' after Stop is read as: no worker searches more than B further nodes after the cancellation signal (B is recorded in the case) and the run ends within the step cap".to_string()),
        "C14" => v.push("only the UCI-loop half of C14 is decided here (arbitrary input lines, including FEN text reached through `position fen`); direct SAN/FEN parser totality is a pure string property outside this technique".to_string()),
        "C18" => v.push("thread_rng is put in constant-stream mode so that a fresh session draws the same search seed; depth <= 2 keeps the probe single-worker".to_string()),
        _ => {}
    }
    v
}

fn arg_val(args: &[String], name: &str) -> Option<String> {
    args.iter().position(|a| a == name).and_then(|i| args.get(i + 1).cloned())
}

fn default_runs(prop: &str, thorough: bool) -> u64 {
    let (q, t) = match prop {
        "C15" => (60_000, 1_500_000),
        "C03" => (6_000, 150_000),
        "C04" => (4_000, 80_000),
        "C06" => (12_000, 300_000),
        "C07" => (2_500, 60_000),
        "C14" => (2_500, 60_000),
        "C17" => (6_000, 120_000),
        "C18" => (1_200, 30_000),
        "C19" => (6_000, 200_000),
        _ => (1_000, 10_000),
    };
    if thorough {
        t
    } else {
        q
    }
}

fn make_ctx() -> Ctx {
    let verif_dir = PathBuf::from(std::env::var("WSIM_VERIF_DIR").unwrap_or_else(|_| "/verif".to_string()));
    let known = known::load(&verif_dir.join("known_findings.json"));
    let post_cancel_bound = std::env::var("WSIM_POST_CANCEL_BOUND").ok().and_then(|s| s.parse().ok()).unwrap_or(40_000);
    Ctx { tb: refchess::tb::Tb::build(), known, verif_dir, post_cancel_bound }
}

fn main() {
    let args: Vec<String> = std::env::args().skip(1).collect();
    let cmd = args.first().map(|s| s.as_str()).unwrap_or("");
    let seed: u64 = arg_val(&args, "--seed").or_else(|| std::env::var("VERIF_SEED").ok()).and_then(|s| s.parse().ok()).unwrap_or(1);
    let jobs: usize = arg_val(&args, "--jobs").and_then(|s| s.parse().ok()).unwrap_or_else(|| std::thread::available_parallelism().map(|n| n.get()).unwrap_or(4));
    match cmd {
        "check" => {
            let prop = args.get(1).cloned().unwrap_or_default();
            if !CLAIMED.contains(&prop.as_str()) {
                eprintln!("HARNESS-ERROR: no check for property '{}'", prop);
                std::process::exit(2);
            }
            let tier = arg_val(&args, "--tier").or_else(|| std::env::var("VERIF_TIER").ok()).unwrap_or_else(|| "quick".to_string());
            let thorough = tier == "thorough";
            let runs = arg_val(&args, "--runs").and_then(|s| s.parse().ok()).unwrap_or_else(|| default_runs(&prop, thorough));
            let max_secs = arg_val(&args, "--secs").and_then(|s| s.parse().ok()).unwrap_or(if thorough { 3 * 3600 } else { 600 });
            let ctx = make_ctx();
            println!("[wsim] property {} tier {} VERIF_SEED {} runs {} jobs {}", prop, tier, seed, runs, jobs);
            let cfg = batch::BatchCfg { prop: prop.clone(), thorough, base_seed: seed, runs, jobs, max_secs, write_evidence: !args.iter().any(|a| a == "--no-evidence"), quiet: false };
            let mut res = batch::run_batch(&ctx, &cfg);
            // C19 also across processes: a child with another pool size re-runs a prefix of
            // the batch; the per-run digests (events + decision traces) must be identical
            if prop == "C19" && res.exit == 0 && !args.iter().any(|a| a == "--no-child") {
                let n = runs.min(if thorough { 4000 } else { 600 });
                let exe = std::env::current_exe().unwrap();
                let out = std::process::Command::new(exe)
                    .args(["digests", &prop, "--seed", &seed.to_string(), "--runs", &n.to_string(), "--jobs", "3", "--tier", &tier])
                    .output();
                match out {
                    Ok(o) if o.status.success() => {
                        let theirs: Vec<(u64, u64)> = String::from_utf8_lossy(&o.stdout)
                            .lines()
                            .filter_map(|l| {
                                let mut it = l.split_whitespace();
                                Some((it.next()?.parse().ok()?, it.next()?.parse().ok()?))
                            })
                            .collect();
                        let mine: std::collections::HashMap<u64, u64> = res.digests.iter().copied().collect();
                        let mut bad = 0;
                        for (i, d) in &theirs {
                            if mine.get(i) != Some(d) {
                                bad += 1;
                                if bad <= 3 {
                                    println!("VIOLATION property=C19 replay=/verif/replays/C19-cross-process-{}.txt", i);
                                    let _ = std::fs::create_dir_all("/verif/replays");
                                    let _ = std::fs::write(format!("/verif/replays/C19-cross-process-{}.txt", i), format!("run index {} of `wsim check C19 --seed {}` gives digest {:?} in this process and {} in a second process\nreplay: wsim one C19 {} --seed {}\n", i, seed, mine.get(i), d, i, seed));
                                }
                            }
                        }
                        println!("[wsim] C19 cross-process: {} runs compared with a second OS process (3 pool threads), {} differ", theirs.len(), bad);
                        if bad > 0 {
                            res.exit = 1;
                        }
                    }
                    other => {
                        eprintln!("HARNESS-ERROR: child process for the cross-process comparison failed: {:?}", other.map(|o| o.status));
                        res.exit = 2;
                    }
                }
            }
            std::process::exit(res.exit);
        }
        "digests" => {
            let prop = args.get(1).cloned().unwrap_or_default();
            let tier = arg_val(&args, "--tier").unwrap_or_else(|| "quick".to_string());
            let runs = arg_val(&args, "--runs").and_then(|s| s.parse().ok()).unwrap_or(100);
            let ctx = make_ctx();
            let cfg = batch::BatchCfg { prop, thorough: tier == "thorough", base_seed: seed, runs, jobs, max_secs: 3600, write_evidence: false, quiet: true };
            let res = batch::run_batch(&ctx, &cfg);
            for (i, d) in res.digests {
                println!("{} {}", i, d);
            }
            std::process::exit(0);
        }
        "replay" => {
            let path = args.get(1).cloned().unwrap_or_default();
            let ctx = make_ctx();
            std::process::exit(replay::replay(&ctx, &path));
        }
        "one" => {
            let prop = args.get(1).cloned().unwrap_or_default();
            let index: u64 = args.get(2).and_then(|s| s.parse().ok()).unwrap_or(0);
            let thorough = arg_val(&args, "--tier").map(|t| t == "thorough").unwrap_or(false);
            let ctx = make_ctx();
            let run_seed = batch::run_seed_for(seed, &prop, index);
            let (case, spec) = cases::generate(&ctx, &prop, thorough, run_seed, index);
            println!("case: {}", serde_json::to_string_pretty(&case).unwrap());
            println!("schedule: seed {} strategy {:?}", spec.seed, spec.strategy);
            let t = std::time::Instant::now();
            let rep = cases::run(&ctx, &case, &spec);
            for l in &rep.transcript {
                println!("  {}", l);
            }
            println!("outcome {:?} steps {} switches {} nodes {} digest {:016x} in {:?}", rep.outcome, rep.stats.steps, rep.stats.switches, rep.stats.nodes, rep.digest, t.elapsed());
            println!("faults {:?} probes {:?}", rep.stats.faults, rep.stats.probes);
            println!("oracle evaluations {:?}", rep.stats.oracle_evals);
            for v in &rep.violations {
                println!("VIOLATION {} :: {}", v.signature, v.detail);
            }
            if let Some(e) = rep.harness_error {
                println!("HARNESS-ERROR {}", e);
            }
        }
        "case" => {
            // debug: run a Case given as JSON under a seeded schedule
            let path = args.get(1).cloned().unwrap_or_default();
            let ctx = make_ctx();
            let case: cases::Case = serde_json::from_str(&std::fs::read_to_string(&path).expect("read case")).expect("parse case");
            let spec = sched::SchedSpec { seed, strategy: sched::Strategy::Sticky(900), trace: None, step_cap: 60_000_000 };
            let t = std::time::Instant::now();
            let rep = cases::run(&ctx, &case, &spec);
            for l in rep.transcript.iter().rev().take(30).rev() {
                println!("  {}", l);
            }
            println!("outcome {:?} steps {} nodes {} in {:?}", rep.outcome, rep.stats.steps, rep.stats.nodes, t.elapsed());
            println!("faults {:?} probes {:?}", rep.stats.faults, rep.stats.probes);
            for v in &rep.violations {
                println!("VIOLATION {} :: {}", v.signature, v.detail);
            }
            if let Some(e) = rep.harness_error {
                println!("HARNESS-ERROR {}", e);
            }
        }
        "ttdump" => {
            // debug: search <fen1> to <depth> (1 worker, small table), then show the stored entry of <fen2>
            let f1 = args.get(1).cloned().unwrap();
            let d: usize = args.get(2).unwrap().parse().unwrap();
            let f2 = args.get(3).cloned().unwrap();
            let sd: u64 = args.get(4).and_then(|s| s.parse().ok()).unwrap_or(7234355430761336373);
            let spec = sched::SchedSpec { seed: 1, strategy: sched::Strategy::RoundRobin, trace: None, step_cap: 10_000_000 };
            let out = exec::execute(&spec, weechess_simrt::world::Run::new(1), move || {
                use weechess_engine::searcher::verif;
                let art = verif::new_artifact(13951412781934528337, 8, 64);
                let st = bridge::state_from_fen(&f1).unwrap();
                let art = verif::analyze_sync(st, &weechess_engine::eval::Evaluator::default(), sd, Some(d), Some(1), &verif::Cancel::new(), Some(art), &mut |_| {});
                let h = verif::artifact_hash(&art, &bridge::state_from_fen(&f2).unwrap());
                let dump = verif::artifact_dump(&art);
                let hit: Vec<String> = dump.iter().filter(|s| s.key == h).map(|s| format!("{:?}", s.entry)).collect();
                (hit, dump.len())
            });
            println!("{:?}", out.value);
        }
        "findmates" => {
            // one-off generator: mate-in-1 positions whose mating move is of a special kind
            // (double check, discovered check, promotion, en passant, pawn push, castling)
            use refchess::*;
            let secs: u64 = args.get(1).and_then(|s| s.parse().ok()).unwrap_or(20);
            std::thread::scope(|sc| {
                for t in 0..jobs {
                    sc.spawn(move || {
                        let mut rng = rng::Rng64::new(seed * 7919 + t as u64);
                        let start = std::time::Instant::now();
                        while start.elapsed().as_secs() < secs {
                            let p = corpus::random_rich(&mut rng);
                            for m in p.legal_moves() {
                                let c = p.make(m);
                                if !(c.in_check() && c.legal_moves().is_empty()) {
                                    continue;
                                }
                                let mover = p.board[m.from as usize] & 7;
                                let ksq = c.king_sq(c.side).unwrap();
                                let kind = if m.promo != 0 {
                                    "promotion"
                                } else if mover == PAWN && (m.from % 8) != (m.to % 8) && p.board[m.to as usize] == EMPTY {
                                    "en-passant"
                                } else if mover == KING && ((m.from as i8 - m.to as i8).abs() == 2) {
                                    "castle"
                                } else if !c.attacked_by_piece_at(ksq, m.to) {
                                    "discovered"
                                } else if c.count_checkers() >= 2 {
                                    "double"
                                } else if mover == PAWN {
                                    "pawn"
                                } else if p.board[m.to as usize] != EMPTY {
                                    "capture"
                                } else {
                                    continue;
                                };
                                println!("{} | {} | {}", kind, p.fen(), m.uci());
                            }
                        }
                    });
                }
            });
        }
        "findunder" => {
            // one-off generator: forced mate in 3 plies whose first move must be an under-promotion
            use refchess::*;
            use std::collections::HashSet;
            let secs: u64 = args.get(1).and_then(|s| s.parse().ok()).unwrap_or(20);
            let empty: HashSet<String> = HashSet::new();
            std::thread::scope(|sc| {
                for t in 0..jobs {
                    let empty = &empty;
                    sc.spawn(move || {
                        let mut rng = rng::Rng64::new(seed * 104729 + t as u64);
                        let start = std::time::Instant::now();
                        while start.elapsed().as_secs() < secs {
                            let mut p = corpus::random_rich(&mut rng);
                            // put a pawn of the side to move on its seventh rank
                            let (rank7, pawn) = if p.side == 0 { (6u8, PAWN) } else { (1u8, PAWN | BLACK_BIT) };
                            let f = rng.below(8) as u8;
                            let sq = (rank7 * 8 + f) as usize;
                            if p.board[sq] != EMPTY {
                                continue;
                            }
                            p.board[sq] = pawn;
                            p.ep = None;
                            if !p.is_sane() || p.legal_moves().is_empty() {
                                continue;
                            }
                            if !matches!(solve::mate_distance(&p, 3, empty, 80_000), Ok(Some(3))) {
                                continue;
                            }
                            let keepers: Vec<Mv> = p.legal_moves().into_iter().filter(|m| solve::move_keeps_mate(&p, *m, 3, empty, 80_000) == solve::Answer::Yes).collect();
                            if keepers.is_empty() || !keepers.iter().all(|m| m.promo != 0 && m.promo != QUEEN) {
                                continue;
                            }
                            println!("{} | {}", p.fen(), keepers.iter().map(|m| m.uci()).collect::<Vec<_>>().join(" "));
                        }
                    });
                }
            });
        }
        "findc17" => {
            // one-off generator: positions with a short forced mate, >= 2 mate-keeping first moves,
            // one of which is a pawn move or a capture (used to extend the curated corpus)
            use refchess::solve;
            use std::collections::HashSet;
            let secs: u64 = args.get(1).and_then(|s| s.parse().ok()).unwrap_or(30);
            let empty: HashSet<String> = HashSet::new();
            std::thread::scope(|sc| {
                for t in 0..jobs {
                    let empty = &empty;
                    sc.spawn(move || {
                        let mut rng = rng::Rng64::new(seed * 1000 + t as u64);
                        let start = std::time::Instant::now();
                        while start.elapsed().as_secs() < secs {
                            let p = corpus::random_pawn_endgame(&mut rng);
                            let Ok(Some(n)) = solve::mate_distance(&p, 3, empty, 60_000) else { continue };
                            let mut keepers = Vec::new();
                            for m in p.legal_moves() {
                                if solve::move_keeps_mate(&p, m, n + 2, empty, 60_000) == solve::Answer::Yes {
                                    keepers.push(m);
                                }
                            }
                            if keepers.len() < 2 {
                                continue;
                            }
                            let irreversible: Vec<&refchess::Mv> = keepers
                                .iter()
                                .filter(|m| (p.board[m.from as usize] & 7) == refchess::PAWN || p.board[m.to as usize] != refchess::EMPTY)
                                .collect();
                            if let Some(m) = irreversible.first() {
                                println!("{} | n={} | keepers={} | irreversible={}", p.fen(), n, keepers.len(), m.uci());
                            }
                        }
                    });
                }
            });
        }
        "selfcheck" => {
            let what = args.get(1).map(|s| s.as_str()).unwrap_or("oracle");
            let code = match what {
                "oracle" => selfcheck_oracle(),
                "determinism" => selfcheck_determinism(&args, seed, jobs),
                _ => 2,
            };
            std::process::exit(code);
        }
        _ => {
            eprintln!("usage: wsim check <ID> [--tier quick|thorough] [--seed N] [--runs N] | replay <file> | selfcheck oracle|determinism | one <ID> <index>");
            std::process::exit(2);
        }
    }
}

fn selfcheck_oracle() -> i32 {
    let mut bad = 0;
    match refchess::selftest() {
        Ok(n) => println!("[selfcheck] refchess perft suite ok ({} leaf nodes counted, 6 published positions)", n),
        Err(e) => {
            println!("[selfcheck] refchess perft FAILED: {}", e);
            bad += 1;
        }
    }
    let tb = refchess::tb::Tb::build();
    let (q, r) = tb.max_dtm();
    // published maxima: KQK mate in 10 moves, KRK mate in 16 moves
    if q != 21 || r != 33 {
        println!("[selfcheck] tablebase maxima wrong: kqk {} krk {} (expected encoded 21 / 33)", q, r);
        bad += 1;
    } else {
        println!("[selfcheck] tablebases ok (KQK max 10 moves, KRK max 16 moves)");
    }
    for fen in corpus::all_corpus() {
        match refchess::Pos::from_fen(fen) {
            Some(p) if p.is_sane() && p.fen() == fen => {
                let terminal = p.legal_moves().is_empty();
                let should = corpus::TERMINAL.contains(&fen);
                if terminal != should {
                    println!("[selfcheck] corpus position '{}' terminal={} but listed otherwise", fen, terminal);
                    bad += 1;
                }
                match bridge::state_from_fen(fen) {
                    Some(s) if bridge::state_fen(&s) == fen => {}
                    _ => {
                        println!("[selfcheck] engine does not round-trip corpus FEN '{}'", fen);
                        bad += 1;
                    }
                }
            }
            _ => {
                println!("[selfcheck] corpus FEN invalid or not canonical: '{}'", fen);
                bad += 1;
            }
        }
    }
    for line in corpus::BOOK_CASTLE_LINES {
        let mut p = refchess::Pos::start();
        for t in line.split_ascii_whitespace() {
            match refchess::Mv::parse(t) {
                Some(m) if p.is_legal(m) => p = p.make(m),
                _ => {
                    println!("[selfcheck] opening line '{}' has an illegal move at '{}'", line, t);
                    bad += 1;
                    break;
                }
            }
        }
    }
    for (fen, line) in corpus::SPECIAL_LINES {
        match refchess::Pos::from_fen(fen).filter(|p| p.is_sane() && p.fen() == *fen) {
            Some(mut p) => {
                for t in line.split_ascii_whitespace() {
                    match refchess::Mv::parse(t) {
                        Some(m) if p.is_legal(m) => p = p.make(m),
                        _ => {
                            println!("[selfcheck] special line '{}' from '{}' has an illegal move at '{}'", line, fen, t);
                            bad += 1;
                            break;
                        }
                    }
                }
            }
            None => {
                println!("[selfcheck] special line start '{}' invalid", fen);
                bad += 1;
            }
        }
    }
    println!("[selfcheck] corpus: {} positions checked; enumerated malformed lines: {}", corpus::all_corpus().len(), malformed::enumerated_cached().len());
    if bad == 0 {
        0
    } else {
        2
    }
}

/// Every scenario: N run seeds, each executed twice in this process (different pool
/// threads) and once more in a child process with another pool size; digests must agree.
fn selfcheck_determinism(args: &[String], seed: u64, jobs: usize) -> i32 {
    let n: u64 = arg_val(args, "--runs").and_then(|s| s.parse().ok()).unwrap_or(300);
    let ctx = make_ctx();
    let mut bad = 0;
    for prop in CLAIMED {
        let cfg = batch::BatchCfg { prop: prop.to_string(), thorough: false, base_seed: seed, runs: n, jobs, max_secs: 3600, write_evidence: false, quiet: true };
        let a = batch::run_batch(&ctx, &cfg).digests;
        let cfg2 = batch::BatchCfg { jobs: 5, ..batch::BatchCfg { prop: prop.to_string(), thorough: false, base_seed: seed, runs: n, jobs, max_secs: 3600, write_evidence: false, quiet: true } };
        let b = batch::run_batch(&ctx, &cfg2).digests;
        let exe = std::env::current_exe().unwrap();
        let out = std::process::Command::new(exe).args(["digests", prop, "--seed", &seed.to_string(), "--runs", &n.to_string(), "--jobs", "3"]).output();
        let c: Vec<(u64, u64)> = match out {
            Ok(o) => String::from_utf8_lossy(&o.stdout)
                .lines()
                .filter_map(|l| {
                    let mut it = l.split_whitespace();
                    Some((it.next()?.parse().ok()?, it.next()?.parse().ok()?))
                })
                .collect(),
            Err(_) => vec![],
        };
        let distinct: std::collections::HashSet<u64> = a.iter().map(|x| x.1).collect();
        let ok = a == b && a == c && a.len() as u64 == n;
        println!("[selfcheck] determinism {}: {} run seeds x (2 in-process runs with 16/5 pool threads + 1 child process with 3 pool threads): {} ({} distinct digests)", prop, n, if ok { "identical" } else { "MISMATCH" }, distinct.len());
        if !ok {
            bad += 1;
            for ((i, x), (_, y)) in a.iter().zip(b.iter()) {
                if x != y {
                    println!("    first in-process mismatch at run index {}", i);
                    break;
                }
            }
            for ((i, x), (_, y)) in a.iter().zip(c.iter()) {
                if x != y {
                    println!("    first cross-process mismatch at run index {}", i);
                    break;
                }
            }
        }
    }
    if bad == 0 {
        0
    } else {
        2
    }
}
