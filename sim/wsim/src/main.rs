mod bridge;
mod exec;
mod rng;
mod sched;

use sched::{SchedSpec, Strategy};
use weechess_simrt::world::{self, Event, Run};

fn main() {
    let t = std::time::Instant::now();
    for seed in 0..6u64 {
        let spec = SchedSpec { seed, strategy: Strategy::Uniform, trace: None, step_cap: 5_000_000 };
        let mut run = Run::new(seed);
        run.dims = (8, 64);
        run.rayon_threads = 4;
        let out = exec::execute(&spec, run, move || {
            let h = shuttle::thread::spawn(|| weechess_engine::uci::Client::new().exec().is_ok());
            for l in ["uci", "position startpos moves a2a4 h7h5 b2b4 g7g5", "go depth 4", "isready"] {
                world::push_line(Some(l.to_string()));
                for _ in 0..20 { world::step(); }
            }
            // wait for quiescence
            let mut n = 0;
            while world::step() > 0 { n += 1; }
            world::note(format!("quiescent after {} world steps", n));
            world::push_line(Some("quit".into()));
            let ok = h.join().unwrap();
            world::tick(10_000_000_000);
            while world::step() > 0 {}
            (ok, world::sleeper_count())
        });
        let run = out.run.unwrap();
        println!("seed {} outcome {:?} value {:?} steps {} switches {} nodes {} log {}", seed, out.outcome, out.value, out.sched.steps, out.sched.switches, run.probe.nodes_total, run.log.len());
        if seed == 0 {
            for e in run.log.iter() {
                match e { Event::Out{line, task, ..} => println!("   [{}] {}", run.labels.get(task).cloned().unwrap_or_default(), line.lines().next().unwrap_or("")), other => println!("   {:?}", other) }
            }
        }
    }
    println!("elapsed {:?}", t.elapsed());
}
