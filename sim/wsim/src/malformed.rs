//! Malformed input lines for C14: an enumerated list (every truncation of a set of valid
//! lines at every char boundary, token truncations, over-long ranks, ...) plus seeded
//! mutations of the valid lines of the session at hand.

use crate::rng::Rng64;

const BASE_LINES: &[&str] = &[
    "position startpos moves e2e4 e7e5 g1f3",
    "position startpos moves a2a4 h7h5 a4a5 h5h4 a5a6 h4h3 a6b7 h3g2 b7a8q g2h1n",
    "position fen r3k2r/p1ppqpb1/bn2pnp1/3PN3/1p2P3/2N2Q1p/PPPBBPPP/R3K2R w KQkq - 0 1 moves e1g1",
    "position fen rnbqkbnr/ppp1p1pp/8/3pPp2/8/8/PPPP1PPP/RNBQKBNR w KQkq f6 0 3 moves e5f6",
    "position fen 8/P6k/8/8/8/8/7K/8 w - - 0 1 moves a7a8q",
    "go depth 3",
    "go movetime 100",
    "go depth 2 movetime 50",
    "isready",
    "ucinewgame",
    "uci",
    "stop",
    ".state",
    ".status",
];

const MULTIBYTE: &[&str] = &["é", "ß", "€", "→", "♞", "𝄞", "😀", "\u{0301}", "\u{200b}"];

/// The enumerated part of the fault space (same list every time).
pub fn enumerated() -> Vec<String> {
    let mut out: Vec<String> = Vec::new();
    // (a) every truncation of every base line at every char boundary
    for l in BASE_LINES {
        for (i, _) in l.char_indices().skip(1) {
            out.push(l[..i].to_string());
        }
    }
    // (a') the last move token cut to 0..3 bytes, after one, two, three good moves
    for good in ["", " e2e4", " e2e4 e7e5", " e2e4 e7e5 g1f3"] {
        for tok in ["", "e", "e2", "e2e", "b", "b1", "b1c", "a7a8", "a7a", "e7e8q", "e7e8x", "e2e4q", "0000", "e9e4", "i2i4", "e2e4e", "e2e4qq", "E2E4", "e2-e4", "e2e4+", "e2e4#", "e1g1k", "e1g1q", "O-O", "0-0", "e7e8Q", "e7e8k", "e7e8p", "e2e4 ", "e2 e4", "e2e4!", "exd5", "Nf3", "e2e4e5", "  "] {
            out.push(format!("position startpos moves{} {}", good, tok));
        }
    }
    // (a'') a fifth character after four that name a legal move of every kind: promotion push and
    // capture (both colours), castling, en passant, double push, plain move
    {
        let printable: Vec<String> = (0x21u8..0x7f).map(|b| (b as char).to_string()).collect();
        let few: Vec<String> = ["k", "K", "p", "P", "q", "Q", "r", "R", "b", "B", "n", "N", "x", "1", "=", "=Q", "qq", "kq", "qk", "é"].iter().map(|s| s.to_string()).collect();
        let sites: [(&str, &str, bool); 8] = [
            ("fen 8/P6k/8/8/8/8/7K/8 w - - 0 1", "a7a8", true),
            ("fen 1n5k/P7/8/8/8/8/7K/8 w - - 0 1", "a7b8", false),
            ("fen 8/7k/8/8/8/8/p6K/8 b - - 0 1", "a2a1", false),
            ("fen 8/7k/8/8/8/8/p6K/1N6 b - - 0 1", "a2b1", false),
            ("fen r3k2r/8/8/8/8/8/8/R3K2R w KQkq - 0 1", "e1g1", false),
            ("fen rnbqkbnr/ppp1p1pp/8/3pPp2/8/8/PPPP1PPP/RNBQKBNR w KQkq f6 0 3", "e5f6", false),
            ("startpos", "e2e4", false),
            ("startpos", "g1f3", false),
        ];
        for (pos, mv, all) in sites {
            for suffix in if all { printable.iter() } else { few.iter() } {
                out.push(format!("position {} moves {}{}", pos, mv, suffix));
            }
            for mb in MULTIBYTE.iter().take(if all { MULTIBYTE.len() } else { 0 }) {
                out.push(format!("position {} moves {}{}", pos, mv, mb));
            }
        }
        // ... and the same after a good promotion, so that the bad token is not the first move
        for suffix in ["k", "P", "x"] {
            out.push(format!("position fen 8/P6k/8/8/8/8/p6K/8 w - - 0 1 moves a7a8q h7g7 h2g2 a2a1{}", suffix));
        }
    }
    // (e) FEN ranks that are too long: n eights, for every n up to 40
    for n in 2..=40 {
        let rank: String = std::iter::repeat('8').take(n).collect();
        out.push(format!("position fen {}/8/8/8/8/8/8/8 w - - 0 1", rank));
        out.push(format!("position fen 8/8/8/8/8/8/8/{} w - - 0 1", rank));
    }
    for n in [9usize, 10, 16, 31, 32, 33, 64, 255, 256, 257] {
        let rank: String = std::iter::repeat('1').take(n).collect();
        out.push(format!("position fen {}/8/8/8/8/8/8/8 w - - 0 1", rank));
        let rank: String = std::iter::repeat('P').take(n).collect();
        out.push(format!("position fen 4k3/{}/8/8/8/8/8/4K3 w - - 0 1", rank));
    }
    // (e) structural FEN mutations
    for f in [
        "position fen",
        "position fen ",
        "position fen 8/8/8/8/8/8/8/8 w - - 0 1",
        "position fen 8/8/8/8/8/8/8/8/8 w - - 0 1",
        "position fen 8/8/8/8/8/8/8 w - - 0 1",
        "position fen rnbqkbnr/pppppppp/8/8/8/8/PPPPPPPP/RNBQKBNRR w KQkq - 0 1",
        "position fen rnbqkbnr/pppppppp/9/8/8/8/PPPPPPPP/RNBQKBNR w KQkq - 0 1",
        "position fen rnbqkbnr/pppppppp/8/8/8/8/PPPPPPPP/RNBQKBNR x KQkq - 0 1",
        "position fen rnbqkbnr/pppppppp/8/8/8/8/PPPPPPPP/RNBQKBNR w KQkqK - 0 1",
        "position fen rnbqkbnr/pppppppp/8/8/8/8/PPPPPPPP/RNBQKBNR w KQkq e9 0 1",
        "position fen rnbqkbnr/pppppppp/8/8/8/8/PPPPPPPP/RNBQKBNR w KQkq e3 0 1",
        "position fen rnbqkbnr/pppppppp/8/8/8/8/PPPPPPPP/RNBQKBNR w KQkq - 999999999999999999999999999999 1",
        "position fen rnbqkbnr/pppppppp/8/8/8/8/PPPPPPPP/RNBQKBNR w KQkq - 0 999999999999999999999999999999",
        "position fen rnbqkbnr/pppppppp/8/8/8/8/PPPPPPPP/RNBQKBNR w KQkq - -1 1",
        "position fen rnbqkbnr/pppppppp/8/8/8/8/PPPPPPPP/RNBQKBNR w KQkq -",
        "position fen rnbqkbnr/pppppppp/8/8/8/8/PPPPPPPP/RNBQKBNR w",
        "position fen rnbqkbnr/pppppppp/8/8/8/8/PPPPPPPP/RNBQKBNR",
        "position fen 8/8/8/8/8/8/8/8 w - - 0 1 moves e2e4",
        "position fen kkkkkkkk/8/8/8/8/8/8/KKKKKKKK w - - 0 1",
        "position fen 4k3/8/8/8/8/8/8/8 w - - 0 1",
        "position fen 4k3/8/8/8/8/8/8/8 w - - 0 1 moves e8e7",
        "position fen 8/8/8/8/8/8/8/8 w - - 0 1 moves a1a2",
        "position fen pppppppp/pppppppp/pppppppp/pppppppp/PPPPPPPP/PPPPPPPP/PPPPPPPP/PPPPPPPP w - - 0 1",
        "position fen QQQQQQQQ/QQQQQQQQ/QQQQQQQQ/QQQQkQQQ/QQQQQQQQ/QQQQQQQQ/QQQQQQQQ/QQQQKQQQ w - - 0 1",
        "position fen 4k3/8/8/8/8/8/8/4K3 w - - 0 1 moves",
        "position startpos moves",
        "position startpos moves moves",
        "position startpos e2e4",
        "position",
        "position moves e2e4",
        "position startpos fen",
        "position fen startpos",
    ] {
        out.push(f.to_string());
    }
    // (e') every FEN field filled from the characters its own grammar mentions, one field at a time
    {
        let good = ["rnbqkbnr/pppppppp/8/8/8/8/PPPPPPPP/RNBQKBNR", "w", "KQkq", "-", "0", "1"];
        let alphabet: [&[&str]; 6] = [
            &["|", "/", "8", "k", "K", "kK", "8/8", "////////", "1p6", "p1p1p1p1p", "0", "9"],
            &["|", "-", "W", "B", "wb", "bw", "ww", "", "w|b", "b|w", "[", "]"],
            &["|", "||||", "K|Q", "KQkq|", "kqKQ", "KKKK", "KQkqK", "k", "Q", "QK", "-K", "K-", "--", "AHah"],
            &["|", "--", "e", "3", "e0", "e9", "i3", "a1", "h8", "e3e4", "-e3", "E3"],
            &["|", "-", "-0", "+0", "00", "1.0", "1e1", "ff", "", "4294967296", "18446744073709551616"],
            &["|", "-", "0", "-1", "+1", "00", "", "4294967296", "18446744073709551616"],
        ];
        for (i, alts) in alphabet.iter().enumerate() {
            for a in alts.iter() {
                let mut f: Vec<&str> = good.to_vec();
                f[i] = a;
                out.push(format!("position fen {}", f.join(" ")));
            }
        }
    }
    // (e'') text that parses and is playable, but is no chess position: extreme material
    {
        let mut rng = Rng64::new(0x00e7_7e3e);
        let mut made = 0;
        let mut tries = 0;
        while made < 16 && tries < 20_000 {
            tries += 1;
            let strong_white = made % 2 == 0;
            let heavy = if made % 4 < 2 { refchess::QUEEN } else { refchess::ROOK };
            let n = 10 + rng.below(14) as usize;
            let mut board = [refchess::EMPTY; 64];
            let mut put = |pc: u8, rng: &mut Rng64, board: &mut [u8; 64]| loop {
                let sq = rng.below(64) as usize;
                if board[sq] == refchess::EMPTY {
                    board[sq] = pc;
                    break;
                }
            };
            put(refchess::KING, &mut rng, &mut board);
            put(refchess::KING | refchess::BLACK_BIT, &mut rng, &mut board);
            for _ in 0..n {
                put(heavy | if strong_white { 0 } else { refchess::BLACK_BIT }, &mut rng, &mut board);
            }
            for side in 0..2u8 {
                let p = refchess::Pos { board, side, castling: 0, ep: None, halfmove: 0, fullmove: 1 };
                if p.is_sane() && !p.legal_moves().is_empty() && !p.in_check() {
                    out.push(format!("position fen {}", p.fen()));
                    made += 1;
                    break;
                }
            }
        }
        out.push("position fen 1qqqqqqk/q1qqqqq1/qq1qqqqq/8/8/8/7P/7K w - - 0 1".to_string());
        out.push("position fen 7k/7p/8/8/8/QQ1QQQQQ/Q1QQQQQ1/1QQQQQQK b - - 0 1".to_string());
        out.push("position fen 4k3/pppppppp/pppppppp/pppppppp/8/8/8/4K3 w - - 0 1".to_string());
        out.push("position fen 4k3/8/8/8/PPPPPPPP/PPPPPPPP/PPPPPPPP/4K3 b - - 0 1".to_string());
    }
    // (e4) every en-passant square on a board with pawns about to promote, both sides to move
    for side in ["w", "b"] {
        for sq in 0..64u8 {
            out.push(format!("position fen 7k/3P4/8/8/8/8/3p4/K7 {} - {} 0 1", side, refchess::sq_name(sq)));
        }
    }
    // (e5) FEN text that parses and is playable, with fields that contradict the board: castling
    // rights without king or rook at home, en-passant squares without a pawn to capture or to
    // capture with, pawns on the first and eighth ranks, counters at their ceilings - alone,
    // and followed by the move that the contradictory field seems to allow
    for f in [
        "4k3/8/8/8/8/8/8/4K3 w KQkq - 0 1",
        "4k3/8/8/8/8/8/8/4K3 w KQkq - 0 1 moves e1g1",
        "4k3/8/8/8/8/8/8/4K3 w KQkq - 0 1 moves e1c1",
        "4k3/8/8/8/8/8/8/4K3 b KQkq - 0 1 moves e8g8",
        "4k3/8/8/8/8/8/8/R3K3 w K - 0 1 moves e1g1",
        "4k3/8/8/8/8/8/8/4K2R w Q - 0 1 moves e1c1",
        "r3k2r/8/8/8/8/8/8/4K3 b KQkq - 0 1 moves e8c8",
        "4k3/8/8/8/8/8/8/R2K3R w KQ - 0 1 moves d1f1",
        "4k3/8/8/8/8/8/8/R2K3R w KQ - 0 1 moves d1b1",
        "1k6/8/8/8/8/8/8/K1R4R w KQ - 0 1",
        "4k3/8/8/8/8/8/8/RK5R w KQ - 0 1",
        "k7/8/8/8/8/8/8/R3K2R b KQ - 0 1 moves a8b8 e1g1",
        "4k2r/8/8/8/8/8/8/R3K2n w Qk - 0 1 moves e1f1 e8g8",
        "r3k2R/8/8/8/8/8/8/4K3 b q - 0 1 moves e8c8",
        "P3k3/8/8/8/8/8/8/p3K3 w - - 0 1",
        "p3k3/8/8/8/8/8/8/P3K3 w - - 0 1 moves a1a2",
        "p3k3/8/8/8/8/8/8/P3K3 b - - 0 1 moves a8a7",
        "4k3/8/8/8/8/8/8/PPPPKPPP w - - 0 1 moves a1a3",
        "pppp1ppp/4k3/8/8/8/8/4K3/8 b - - 0 1 moves a8a6",
        "4k3/8/8/8/8/8/8/4K3 w - e3 0 1",
        "4k3/8/8/8/8/8/8/4K3 w - e6 0 1",
        "4k3/8/8/3pP3/8/8/8/4K3 w - e6 0 1 moves e5e6",
        "4k3/8/8/4P3/8/8/8/4K3 w - d6 0 1 moves e5d6",
        "4k3/8/8/4P3/8/8/8/4K3 w - f6 0 1 moves e5f6",
        "4k3/8/8/3pP3/8/8/8/4K3 w - d3 0 1 moves e5d6",
        "4k3/8/8/3Pp3/8/8/8/4K3 w - e6 0 1 moves d5e6",
        "4k3/8/4p3/3P4/8/8/8/4K3 w - e6 0 1 moves d5e6",
        "4k3/8/4n3/3Pp3/8/8/8/4K3 w - e6 0 1 moves d5e6",
        "4k3/8/8/8/3pP3/8/8/4K3 b - e3 0 1 moves d4e3",
        "4k3/8/8/8/3p4/8/8/4K3 b - e3 0 1 moves d4e3",
        "4k3/8/8/8/3p4/4P3/8/4K3 b - e3 0 1 moves d4e3",
        "4k3/8/8/8/8/8/8/4K3 b - a3 0 1",
        "4k3/8/8/8/8/8/8/4K3 w - h6 0 1",
        "rnbqkbnr/pppppppp/8/8/8/8/PPPPPPPP/RNBQKBNR w KQkq e3 0 1",
        "rnbqkbnr/pppppppp/8/8/8/8/PPPPPPPP/RNBQKBNR w KQkq e6 0 1 moves d2d4",
        "rnbqkbnr/pppppppp/8/8/8/8/PPPPPPPP/RNBQKBNR b KQkq e3 0 1 moves d7d5",
        "4k3/8/8/8/8/8/8/4K3 w - - 100 1",
        "4k3/8/8/8/8/8/8/4K3 w - - 65535 65535 moves e1e2 e8e7",
        "4k3/8/8/8/8/8/8/4K3 w - - 4294967295 4294967295 moves e1e2 e8e7",
        "4k3/8/8/8/8/8/8/4K3 b - - 0 4294967295 moves e8e7 e1e2",
        "4k3/8/8/8/8/8/8/4K3 w - - 18446744073709551615 18446744073709551615 moves e1e2 e8e7",
        "rnbqkbnr/pppppppp/8/8/8/8/PPPPPPPP/RNBQKBNR w KQkq - 18446744073709551615 1",
        "rnbqkbnr/pppppppp/8/8/8/8/PPPPPPPP/RNBQKBNR w KQkq - 18446744073709551615 1 moves g1f3",
        "rnbqkbnr/pppppppp/8/8/8/8/PPPPPPPP/RNBQKBNR w KQkq - 0 18446744073709551615",
        "rnbqkbnr/pppppppp/8/8/8/8/PPPPPPPP/RNBQKBNR w KQkq - 0 18446744073709551615 moves e2e4 e7e5",
        "rnbqkbnr/pppppppp/8/8/8/8/PPPPPPPP/RNBQKBNR b KQkq - 18446744073709551614 18446744073709551615 moves g8f6",
        "rnbqkbnr/pppppppp/8/8/8/8/PPPPPPPP/RNBQKBNR w KQkq - 9223372036854775807 9223372036854775808 moves g1f3 g8f6",
        "4k3/8/8/8/8/8/8/4K3 w - - 18446744073709551615 1",
        "4k3/8/8/8/8/8/8/4K3 b - - 0 18446744073709551615",
        "R3k3/8/8/8/8/8/8/4K2r w - - 0 1",
        "k7/8/8/8/8/8/8/K7 w - - 0 1",
        "kK6/8/8/8/8/8/8/8 w - - 0 1",
        "8/8/8/8/8/8/8/kK6 b - - 0 1",
    ] {
        out.push(format!("position fen {}", f));
    }
    // (d) numeric abuse
    for n in ["-1", "0", "+5", "2147483647", "2147483648", "4294967296", "18446744073709551615", "18446744073709551616", "1e9", "0x10", "１", "", " ", "99999999999999999999999999999999999999", "-0", "3.5"] {
        out.push(format!("go depth {}", n));
        out.push(format!("go movetime {}", n));
    }
    for l in ["go depth", "go movetime", "go depth depth", "go infinite", "go wtime 1000 btime 1000", "go ponder", "go depth 1 depth 2 depth 3", "go movetime 0 movetime 0"] {
        out.push(l.to_string());
    }
    // (c) multi-byte characters at every token position and inside move tokens
    for mb in MULTIBYTE {
        out.push(mb.to_string());
        out.push(format!("{} startpos", mb));
        out.push(format!("position {}", mb));
        out.push(format!("position startpos {}", mb));
        out.push(format!("position startpos moves {}", mb));
        out.push(format!("position startpos moves e2e4 {}", mb));
        out.push(format!("position startpos moves {}2e4", mb));
        out.push(format!("position startpos moves e{}e4", mb));
        out.push(format!("position startpos moves e2{}4", mb));
        out.push(format!("position startpos moves e2e{}", mb));
        out.push(format!("position startpos moves e2e4{}", mb));
        out.push(format!("position startpos moves e{}", mb));
        out.push(format!("position startpos moves {}{}", mb, mb));
        out.push(format!("position fen {}/8/8/8/8/8/8/8 w - - 0 1", mb));
        out.push(format!("position fen 8/8/8/8/8/8/8/8 {} - - 0 1", mb));
        out.push(format!("go depth {}", mb));
        out.push(format!("go {}", mb));
        out.push(format!("isready{}", mb));
    }
    // (f) empty, blank, control characters, unknown and wrong-case commands
    for l in ["", " ", "\t", "   \t  ", "\u{0}", "\u{1b}[A", "\r", "quit\u{0}x", "UCI", "IsReady", "Position startpos", "GO depth 1", "xyzzy", "stop stop", "isready isready", "uci uci", "ucinewgame now", "go go go", "debug on", "setoption name Hash value 32", "register later", "ponderhit", "position startpos moves e2e4 e2e4", "position startpos moves e7e5", "position startpos moves e1g1", "position startpos moves e2e5"] {
        out.push(l.to_string());
    }
    // (b) over-long tokens
    for n in [5usize, 16, 100, 1000, 10_000] {
        let long: String = std::iter::repeat('a').take(n).collect();
        out.push(format!("position startpos moves {}", long));
        out.push(format!("position fen {}", long));
        out.push(long.clone());
        out.push(format!("go depth {}", std::iter::repeat('9').take(n).collect::<String>()));
        out.push(format!("go {}", long));
    }
    // (b') very long lines of multi-byte characters, in every alignment to a power-of-two byte
    // offset (a buffer limit that cuts at a fixed byte count must cut on a character boundary)
    for unit in ["é", "€", "😀"] {
        for target in [1024usize, 4096, 8192, 16384, 32768, 65536] {
            for pad in 0..unit.len() {
                let head = format!("position startpos moves e2e4 {}", " ".repeat(pad));
                let n = (target + 64) / unit.len() + 8;
                out.push(format!("{}{}", head, unit.repeat(n)));
            }
        }
    }
    out.retain(|l| !l.contains('\n'));
    out
}

/// A seeded mutation of one of the session's valid lines (or of a base line).
pub fn make(rng: &mut Rng64, valid: &[String]) -> String {
    let base: String = if !valid.is_empty() && rng.chance(600) { rng.pick(valid).clone() } else { rng.pick(BASE_LINES).to_string() };
    let chars: Vec<char> = base.chars().collect();
    match rng.below(9) {
        0 if chars.len() > 1 => chars[..1 + rng.below(chars.len() as u64 - 1) as usize].iter().collect(),
        1 => {
            // cut the last token to 0..3 bytes
            let mut toks: Vec<String> = base.split_ascii_whitespace().map(|s| s.to_string()).collect();
            if let Some(last) = toks.last_mut() {
                let k = rng.below(4) as usize;
                *last = last.chars().take(k).collect();
            }
            toks.join(" ")
        }
        2 => {
            // replace one character by a multi-byte one
            let mut c = chars.clone();
            if !c.is_empty() {
                let i = rng.below(c.len() as u64) as usize;
                let mb: Vec<char> = rng.pick(MULTIBYTE).chars().collect();
                c.splice(i..i + 1, mb);
            }
            c.into_iter().collect()
        }
        3 => {
            // insert a multi-byte character
            let mut c = chars.clone();
            let i = rng.below(c.len() as u64 + 1) as usize;
            let mb: Vec<char> = rng.pick(MULTIBYTE).chars().collect();
            c.splice(i..i, mb);
            c.into_iter().collect()
        }
        4 => {
            // replace a token by a digit flood / huge number / negative
            let mut toks: Vec<String> = base.split_ascii_whitespace().map(|s| s.to_string()).collect();
            if !toks.is_empty() {
                let i = rng.below(toks.len() as u64) as usize;
                toks[i] = rng.pick(&["-1", "99999999999999999999", "4294967296", "18446744073709551616", "18446744073709551615", "9223372036854775807", "1e9", "+1", "00000000000000000000000000000001"]).to_string();
            }
            toks.join(" ")
        }
        5 => {
            // duplicate / drop / swap tokens
            let mut toks: Vec<String> = base.split_ascii_whitespace().map(|s| s.to_string()).collect();
            if toks.len() >= 2 {
                let i = rng.below(toks.len() as u64) as usize;
                match rng.below(3) {
                    0 => {
                        let t = toks[i].clone();
                        toks.insert(i, t);
                    }
                    1 => {
                        toks.remove(i);
                    }
                    _ => {
                        let j = rng.below(toks.len() as u64) as usize;
                        toks.swap(i, j);
                    }
                }
            }
            toks.join(" ")
        }
        6 => {
            // over-long token appended
            let n = *rng.pick(&[5usize, 64, 1000, 10_000]);
            let c = *rng.pick(&['a', '8', '1', '/', 'q']);
            format!("{} {}", base, std::iter::repeat(c).take(n).collect::<String>())
        }
        7 => {
            // lengthen a FEN rank
            if let Some(i) = base.find('/') {
                let n = 1 + rng.below(40) as usize;
                format!("{}{}{}", &base[..i], std::iter::repeat('8').take(n).collect::<String>(), &base[i..])
            } else {
                format!("{} \u{7f}", base)
            }
        }
        _ => {
            let e = enumerated_cached();
            rng.pick(e).clone()
        }
    }
}

pub fn enumerated_cached() -> &'static Vec<String> {
    static CACHE: std::sync::OnceLock<Vec<String>> = std::sync::OnceLock::new();
    CACHE.get_or_init(enumerated)
}

/// Strict grammar of the well-formed commands named by C07 (plus the two debug commands).
pub fn is_well_formed(line: &str, _heads: &[&str]) -> bool {
    let parts: Vec<&str> = line.split_ascii_whitespace().collect();
    if line.chars().any(|c| c.is_control()) || !line.is_ascii() {
        return false;
    }
    match parts.first().copied() {
        Some("uci") | Some("isready") | Some("ucinewgame") | Some("stop") | Some("quit") | Some(".state") | Some(".status") => parts.len() == 1,
        Some("go") => {
            let mut it = parts[1..].iter();
            while let Some(a) = it.next() {
                match *a {
                    "depth" => match it.next().and_then(|s| s.parse::<u32>().ok()) {
                        Some(d) if d >= 1 && d <= 64 => {}
                        _ => return false,
                    },
                    "movetime" => match it.next() {
                        Some(s) if !s.starts_with('+') => match s.parse::<i32>() {
                            Ok(ms) if ms >= 0 => {}
                            _ => return false,
                        },
                        _ => return false,
                    },
                    _ => return false,
                }
            }
            true
        }
        Some("position") => {
            let args = &parts[1..];
            let (pos_part, moves) = match args.iter().position(|a| *a == "moves") {
                Some(i) => (&args[..i], &args[i + 1..]),
                None => (args, &[][..]),
            };
            let start = match pos_part.first().copied() {
                Some("startpos") if pos_part.len() == 1 => Some(refchess::Pos::start()),
                Some("fen") if pos_part.len() == 7 => refchess::Pos::from_fen(&pos_part[1..].join(" ")).filter(|p| p.is_sane()),
                _ => None,
            };
            let Some(mut p) = start else { return false };
            if !pos_part.is_empty() && pos_part[0] == "fen" {
                // counters must be plain small numbers, fields must be canonical
                if pos_part[5].parse::<u32>().is_err() || pos_part[6].parse::<u32>().is_err() {
                    return false;
                }
                if p.fen4() != pos_part[1..5].join(" ") {
                    return false;
                }
            }
            for m in moves {
                match refchess::Mv::parse(m) {
                    Some(mv) if p.is_legal(mv) => p = p.make(mv),
                    _ => return false,
                }
            }
            true
        }
        _ => false,
    }
}
