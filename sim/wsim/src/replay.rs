//! Minimisation of a failing run and the replay file format.

use std::time::Instant;

use serde::{Deserialize, Serialize};

use crate::batch::Found;
use crate::cases::{self, Case};
use crate::report::Violation;
use crate::sched::SchedSpec;
use crate::Ctx;

#[derive(Serialize, Deserialize)]
pub struct ReplayFile {
    pub property: String,
    pub signature: String,
    pub clause: String,
    pub detail: String,
    pub found_at: FoundAt,
    pub case: Case,
    pub schedule: SchedSpec,
    pub context_switches: u64,
    pub digest: u64,
    pub minimisation: MinInfo,
    pub transcript: Vec<String>,
}

#[derive(Serialize, Deserialize)]
pub struct FoundAt {
    pub run_index: u64,
    pub run_seed: u64,
}

#[derive(Serialize, Deserialize, Default)]
pub struct MinInfo {
    pub candidate_runs: u64,
    pub accepted_steps: u64,
    pub original_case_bytes: usize,
    pub minimised_case_bytes: usize,
    pub original_context_switches: u64,
}

fn same_class(a: &Violation, b: &Violation) -> bool {
    a.property == b.property && a.clause == b.clause
}

fn switches(trace: &[(u32, u32)]) -> u64 {
    trace.len() as u64
}

/// Try to reproduce `want` with `case` under a few schedules; returns the schedule
/// (with its exact recorded trace) that did.
fn reproduces(ctx: &Ctx, case: &Case, base: &SchedSpec, trace: &[(u32, u32)], want: &Violation, runs: &mut u64) -> Option<(SchedSpec, Violation, u64, Vec<String>)> {
    let mut attempts: Vec<SchedSpec> = Vec::new();
    let mut t = base.clone();
    t.trace = Some(trace.to_vec());
    attempts.push(t);
    for k in 0..3u64 {
        let mut s = base.clone();
        s.trace = None;
        s.seed = crate::rng::derive(base.seed, 77, k);
        attempts.push(s);
    }
    for s in attempts {
        *runs += 1;
        let rep = cases::run(ctx, case, &s);
        if let Some(v) = rep.violations.iter().find(|v| same_class(v, want)) {
            let mut exact = s.clone();
            exact.trace = Some(rep.trace.clone());
            return Some((exact, v.clone(), rep.digest, rep.transcript));
        }
    }
    None
}

pub fn minimise_and_write(ctx: &Ctx, f: &Found, prop: &str) -> String {
    let start = Instant::now();
    let mut info = MinInfo::default();
    info.original_case_bytes = serde_json::to_string(&f.case).map(|s| s.len()).unwrap_or(0);
    info.original_context_switches = switches(&f.trace);
    let mut best_case = f.case.clone();
    let mut best_spec = f.spec.clone();
    best_spec.trace = Some(f.trace.clone());
    let mut best_v = f.violation.clone();
    let mut best_digest = 0u64;
    let mut best_transcript: Vec<String> = Vec::new();
    // confirm first (also records digest/transcript under the exact trace)
    let mut runs = 0u64;
    if let Some((s, v, d, t)) = reproduces(ctx, &best_case, &f.spec, &f.trace, &f.violation, &mut runs) {
        best_spec = s;
        best_v = v;
        best_digest = d;
        best_transcript = t;
    }
    // 1. workload / fault plan
    'outer: loop {
        if runs > 300 || start.elapsed().as_secs() > 60 {
            break;
        }
        let cands = cases::shrink(&best_case);
        for c in cands {
            if runs > 300 || start.elapsed().as_secs() > 60 {
                break 'outer;
            }
            let tr = best_spec.trace.clone().unwrap_or_default();
            if let Some((s, v, d, t)) = reproduces(ctx, &c, &best_spec, &tr, &best_v, &mut runs) {
                best_case = c;
                best_spec = s;
                best_v = v;
                best_digest = d;
                best_transcript = t;
                info.accepted_steps += 1;
                continue 'outer;
            }
        }
        break;
    }
    // 2. schedule: remove preemptions (merge a run of the trace into its predecessor)
    let mut i = 1usize;
    while runs <= 450 && start.elapsed().as_secs() <= 90 {
        let tr = best_spec.trace.clone().unwrap_or_default();
        if tr.len() <= 2 || i >= tr.len() {
            break;
        }
        let mut cand = tr.clone();
        let (_, cnt) = cand.remove(i);
        cand[i - 1].1 += cnt;
        let mut s = best_spec.clone();
        s.trace = Some(cand);
        runs += 1;
        let rep = cases::run(ctx, &best_case, &s);
        if let Some(v) = rep.violations.iter().find(|v| same_class(v, &best_v)) {
            let mut exact = s.clone();
            exact.trace = Some(rep.trace.clone());
            if rep.trace.len() < tr.len() {
                best_spec = exact;
                best_v = v.clone();
                best_digest = rep.digest;
                best_transcript = rep.transcript;
                info.accepted_steps += 1;
                continue; // same i: the list got shorter
            }
        }
        i += 1;
        if tr.len() > 400 {
            // long traces: sample rather than walk every preemption
            i += tr.len() / 200;
        }
    }
    // 3. re-record under the exact trace so that the stored digest is the replay's digest
    {
        let rep = cases::run(ctx, &best_case, &best_spec);
        runs += 1;
        if let Some(v) = rep.violations.iter().find(|v| same_class(v, &best_v)) {
            best_v = v.clone();
            best_digest = rep.digest;
            best_transcript = rep.transcript;
        }
    }
    info.candidate_runs = runs;
    info.minimised_case_bytes = serde_json::to_string(&best_case).map(|s| s.len()).unwrap_or(0);
    let file = ReplayFile {
        property: prop.to_string(),
        signature: best_v.signature.clone(),
        clause: best_v.clause.clone(),
        detail: best_v.detail.clone(),
        found_at: FoundAt { run_index: f.index, run_seed: f.run_seed },
        case: best_case,
        context_switches: best_spec.trace.as_ref().map(|t| switches(t)).unwrap_or(0),
        schedule: best_spec,
        digest: best_digest,
        minimisation: info,
        transcript: best_transcript.into_iter().take(400).collect(),
    };
    let dir = ctx.verif_dir.join("replays");
    let _ = std::fs::create_dir_all(&dir);
    let path = dir.join(format!("{}-{:016x}.json", prop, f.run_seed));
    std::fs::write(&path, serde_json::to_string_pretty(&file).unwrap()).expect("write replay file");
    path.to_string_lossy().to_string()
}

/// Re-executes a replay file. 1 = the violation reproduces exactly, 2 = it does not.
pub fn replay(ctx: &Ctx, path: &str) -> i32 {
    let text = match std::fs::read_to_string(path) {
        Ok(t) => t,
        Err(e) => {
            eprintln!("cannot read {}: {}", path, e);
            return 2;
        }
    };
    let file: ReplayFile = match serde_json::from_str(&text) {
        Ok(f) => f,
        Err(e) => {
            eprintln!("cannot parse {}: {}", path, e);
            return 2;
        }
    };
    let rep = cases::run(ctx, &file.case, &file.schedule);
    for l in rep.transcript.iter().take(200) {
        println!("  {}", l);
    }
    let hit = rep.violations.iter().find(|v| v.signature == file.signature);
    match hit {
        Some(v) if rep.digest == file.digest && !rep.diverged => {
            println!("VIOLATION property={} replay={}", file.property, path);
            println!("  signature: {}", v.signature);
            println!("  detail: {}", v.detail);
            println!("  reproduced exactly: event-log digest {:016x}, {} context switches", rep.digest, file.context_switches);
            1
        }
        Some(v) => {
            println!("violation {} recurs but the execution differs (digest {:016x} vs recorded {:016x}, diverged={})", v.signature, rep.digest, file.digest, rep.diverged);
            2
        }
        None => {
            println!("the recorded violation {} does not occur on this tree (violations now: {:?})", file.signature, rep.violations.iter().map(|v| &v.signature).collect::<Vec<_>>());
            if rep.violations.is_empty() {
                0
            } else {
                2
            }
        }
    }
}
