//! What one simulated run produces.

use std::collections::BTreeMap;

use serde::{Deserialize, Serialize};

use crate::exec::Outcome;
use crate::sched::SchedOut;

#[derive(Clone, Debug, Serialize, Deserialize, PartialEq, Eq)]
pub struct Violation {
    pub property: String,
    /// oracle clause, e.g. "line-legal", "no-panic", "post-cancel-bound"
    pub clause: String,
    /// stable identification of *what* fails (clause + panic site / input class); used
    /// for known findings and for "same violation class" during minimisation
    pub signature: String,
    pub detail: String,
}

impl Violation {
    pub fn new(property: &str, clause: &str, sig_tail: &str, detail: String) -> Self {
        let signature = if sig_tail.is_empty() {
            format!("{}:{}", property, clause)
        } else {
            format!("{}:{}:{}", property, clause, sig_tail)
        };
        Self { property: property.to_string(), clause: clause.to_string(), signature, detail }
    }
}

#[derive(Clone, Debug, Default)]
pub struct RunStats {
    pub steps: u64,
    pub switches: u64,
    pub choice_points: u64,
    pub max_runnable: usize,
    pub trace_hash: u64,
    pub nodes: u64,
    pub sim_ns: u64,
    /// fault kind -> times it actually fired in this run
    pub faults: BTreeMap<String, u64>,
    /// reach probes hit in this run
    pub probes: BTreeMap<String, u64>,
    /// oracle evaluations performed (clause -> count)
    pub oracle_evals: BTreeMap<String, u64>,
    /// largest number of nodes one worker searched after a cancellation signal
    pub post_cancel_max: u64,
}

impl RunStats {
    pub fn fault(&mut self, k: &str) {
        *self.faults.entry(k.to_string()).or_insert(0) += 1;
    }
    pub fn probe(&mut self, k: &str) {
        *self.probes.entry(k.to_string()).or_insert(0) += 1;
    }
    pub fn probe_n(&mut self, k: &str, n: u64) {
        if n > 0 {
            *self.probes.entry(k.to_string()).or_insert(0) += n;
        }
    }
    pub fn eval(&mut self, k: &str) {
        *self.oracle_evals.entry(k.to_string()).or_insert(0) += 1;
    }
    pub fn absorb_sched(&mut self, s: &SchedOut) {
        self.steps += s.steps;
        self.switches += s.switches;
        self.choice_points += s.choice_points;
        self.max_runnable = self.max_runnable.max(s.max_runnable);
        self.trace_hash = self.trace_hash.rotate_left(13) ^ s.trace_hash;
    }
}

pub struct RunReport {
    pub violations: Vec<Violation>,
    /// harness-level problem (not a property violation): generator bug, cap without cause...
    pub harness_error: Option<String>,
    pub outcome: Outcome,
    pub stats: RunStats,
    /// digest of everything observable in the run (event log, results)
    pub digest: u64,
    pub trace: Vec<(u32, u32)>,
    pub diverged: bool,
    /// human-readable transcript of the run (for replay files and samples)
    pub transcript: Vec<String>,
}

pub fn fnv(h: &mut u64, bytes: &[u8]) {
    for b in bytes {
        *h ^= *b as u64;
        *h = h.wrapping_mul(0x100000001b3);
    }
}

pub fn fnv_str(h: &mut u64, s: &str) {
    fnv(h, s.as_bytes());
    fnv(h, &[0xff]);
}

pub const FNV_INIT: u64 = 0xcbf29ce484222325;
