//! Small deterministic PRNG (splitmix64 seeding + xoshiro256**). One run seed is split
//! into independent streams (workload, faults, scheduler) by `derive`.

#[derive(Clone, Debug)]
pub struct Rng64 {
    s: [u64; 4],
}

pub fn splitmix(x: &mut u64) -> u64 {
    *x = x.wrapping_add(0x9e3779b97f4a7c15);
    let mut z = *x;
    z = (z ^ (z >> 30)).wrapping_mul(0xbf58476d1ce4e5b9);
    z = (z ^ (z >> 27)).wrapping_mul(0x94d049bb133111eb);
    z ^ (z >> 31)
}

/// Derive a sub-seed from a seed and a label / index.
pub fn derive(seed: u64, a: u64, b: u64) -> u64 {
    let mut x = seed ^ a.wrapping_mul(0xa24baed4963ee407) ^ b.wrapping_mul(0x9fb21c651e98df25);
    let r = splitmix(&mut x);
    splitmix(&mut x) ^ r.rotate_left(17)
}

impl Rng64 {
    pub fn new(seed: u64) -> Self {
        let mut x = seed;
        let s = [splitmix(&mut x), splitmix(&mut x), splitmix(&mut x), splitmix(&mut x)];
        Self { s }
    }

    pub fn next(&mut self) -> u64 {
        let r = self.s[1].wrapping_mul(5).rotate_left(7).wrapping_mul(9);
        let t = self.s[1] << 17;
        self.s[2] ^= self.s[0];
        self.s[3] ^= self.s[1];
        self.s[1] ^= self.s[2];
        self.s[0] ^= self.s[3];
        self.s[2] ^= t;
        self.s[3] = self.s[3].rotate_left(45);
        r
    }

    /// uniform in 0..n (n > 0)
    pub fn below(&mut self, n: u64) -> u64 {
        if n <= 1 {
            return 0;
        }
        // multiply-shift; bias is negligible for the small n used here
        ((self.next() as u128 * n as u128) >> 64) as u64
    }

    pub fn range(&mut self, lo: u64, hi_incl: u64) -> u64 {
        lo + self.below(hi_incl - lo + 1)
    }

    pub fn chance(&mut self, permille: u64) -> bool {
        self.below(1000) < permille
    }

    pub fn pick<'a, T>(&mut self, xs: &'a [T]) -> &'a T {
        &xs[self.below(xs.len() as u64) as usize]
    }

    pub fn shuffle<T>(&mut self, xs: &mut [T]) {
        for i in (1..xs.len()).rev() {
            let j = self.below(i as u64 + 1) as usize;
            xs.swap(i, j);
        }
    }
}
