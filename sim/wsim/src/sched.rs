//! The seeded scheduler: the only place where "who runs next" is decided.

use serde::{Deserialize, Serialize};
use shuttle::scheduler::{Schedule, Scheduler, Task, TaskId};
use std::cell::RefCell;

use crate::rng::Rng64;

#[derive(Clone, Debug, Serialize, Deserialize, PartialEq)]
pub enum Strategy {
    /// uniformly random among runnable tasks at every scheduling point
    Uniform,
    /// stay on the current task with probability p/1000, else uniform
    Sticky(u32),
    /// PCT-style: random task priorities, `d` priority-change points in the first `len` steps
    Pct { d: u32, len: u32 },
    /// uniform, but from step `from` for `len` steps one victim task (the task running at
    /// step `from`) is never scheduled while anything else is runnable
    StarveOne { from: u32, len: u32 },
    /// lowest-id-first rotation
    RoundRobin,
    /// uniform, but the `nth` task to appear (spawn order) is frozen after it has been
    /// scheduled `after` times and stays frozen while anything else can run, for at most
    /// `max_freeze` decisions: "pause one thread at a point and let everybody else finish"
    DelayOne { nth: u32, after: u32, max_freeze: u32 },
}

#[derive(Clone, Debug, Serialize, Deserialize)]
pub struct SchedSpec {
    pub seed: u64,
    pub strategy: Strategy,
    /// decision trace to follow (run-length encoded: task id, count); None = decide by seed
    #[serde(default)]
    pub trace: Option<Vec<(u32, u32)>>,
    pub step_cap: u64,
}

#[derive(Clone, Debug, Default)]
pub struct SchedOut {
    pub steps: u64,
    pub switches: u64,
    pub trace: Vec<(u32, u32)>,
    pub diverged: bool,
    pub capped: bool,
    /// decisions at which >= 2 tasks were runnable
    pub choice_points: u64,
    pub max_runnable: usize,
    /// FNV-1a over the sequence of chosen ids at choice points (collapsed by run length)
    pub trace_hash: u64,
}

thread_local! {
    pub static LAST: RefCell<SchedOut> = RefCell::new(SchedOut::default());
}

pub struct Sched {
    spec: SchedSpec,
    rng: Rng64,
    out: SchedOut,
    started: bool,
    replay_pos: (usize, u32),
    prio: Vec<u32>,
    change_points: Vec<u64>,
    victim: Option<usize>,
    cands: Vec<usize>,
    seen: Vec<usize>,
    victim_scheduled: u32,
    frozen_for: u32,
}

impl Sched {
    pub fn new(spec: SchedSpec) -> Self {
        let mut rng = Rng64::new(spec.seed ^ 0x5ced_5ced_5ced_5ced);
        let mut change_points = Vec::new();
        if let Strategy::Pct { d, len } = &spec.strategy {
            for _ in 0..*d {
                change_points.push(rng.below(*len as u64 + 1));
            }
            change_points.sort();
        }
        Self {
            spec,
            rng,
            out: SchedOut { trace_hash: 0xcbf29ce484222325, ..Default::default() },
            started: false,
            replay_pos: (0, 0),
            prio: Vec::new(),
            change_points,
            victim: None,
            cands: Vec::with_capacity(40),
            seen: Vec::new(),
            victim_scheduled: 0,
            frozen_for: 0,
        }
    }

    fn prio_of(&mut self, id: usize) -> u32 {
        while self.prio.len() <= id {
            // high random priorities; change points assign low ones
            let p = 1000 + self.rng.below(1_000_000) as u32;
            self.prio.push(p);
        }
        self.prio[id]
    }

    fn record(&mut self, id: usize, was_choice: bool) {
        let id32 = id as u32;
        let full = self.out.trace.len() >= 4_000_000;
        match self.out.trace.last_mut() {
            Some((t, c)) if *t == id32 => *c += 1,
            _ if full => {
                // keep memory bounded on pathological runs; such a trace cannot be replayed exactly
                self.out.diverged = true;
            }
            _ => {
                self.out.trace.push((id32, 1));
                self.out.switches += 1;
                self.out.trace_hash ^= id32 as u64 + 1;
                self.out.trace_hash = self.out.trace_hash.wrapping_mul(0x100000001b3);
            }
        }
        if was_choice {
            self.out.choice_points += 1;
        }
    }
}

impl Drop for Sched {
    fn drop(&mut self) {
        let out = std::mem::take(&mut self.out);
        LAST.with(|l| *l.borrow_mut() = out);
    }
}

impl Scheduler for Sched {
    fn new_execution(&mut self) -> Option<Schedule> {
        if self.started {
            None
        } else {
            self.started = true;
            Some(Schedule::new(self.spec.seed))
        }
    }

    fn next_task(&mut self, runnable: &[&Task], current: Option<TaskId>, is_yielding: bool) -> Option<TaskId> {
        self.out.steps += 1;
        if self.out.steps > self.spec.step_cap {
            self.out.capped = true;
            return None;
        }
        // Tasks that are merely parked (could wake spuriously) are listed by shuttle; this
        // simulator never wakes them spuriously.
        self.cands.clear();
        for t in runnable {
            if t.runnable() {
                self.cands.push(usize::from(t.id()));
            }
        }
        if self.cands.is_empty() {
            for t in runnable {
                self.cands.push(usize::from(t.id()));
            }
        }
        let n_runnable = self.cands.len();
        let all_runnable = self.cands.clone();
        weechess_simrt::world::SCHED_RUNNABLE.set(n_runnable);
        weechess_simrt::world::SCHED_STEPS.set(self.out.steps);
        if n_runnable > self.out.max_runnable {
            self.out.max_runnable = n_runnable;
        }
        let cur = current.map(usize::from);
        if is_yielding && n_runnable > 1 {
            if let Some(c) = cur {
                self.cands.retain(|&x| x != c);
            }
        }
        let was_choice = self.cands.len() > 1;

        // replay: follow the recorded decision, fall back to the lowest runnable id
        if let Some(trace) = &self.spec.trace {
            let (i, used) = self.replay_pos;
            let want = trace.get(i).map(|&(t, _)| t as usize);
            let pick = match want {
                Some(w) if all_runnable.contains(&w) => w,
                _ => {
                    self.out.diverged = true;
                    *self.cands.iter().min().unwrap()
                }
            };
            if let Some(&(_, count)) = trace.get(i) {
                if used + 1 >= count {
                    self.replay_pos = (i + 1, 0);
                } else {
                    self.replay_pos = (i, used + 1);
                }
            }
            self.record(pick, was_choice);
            return Some(TaskId::from(pick));
        }

        let pick = if self.cands.len() == 1 {
            self.cands[0]
        } else {
            match self.spec.strategy.clone() {
                Strategy::Uniform => self.cands[self.rng.below(self.cands.len() as u64) as usize],
                Strategy::Sticky(p) => {
                    let stay = cur.filter(|c| self.cands.contains(c));
                    match stay {
                        Some(c) if self.rng.below(1000) < p as u64 => c,
                        _ => self.cands[self.rng.below(self.cands.len() as u64) as usize],
                    }
                }
                Strategy::RoundRobin => {
                    let c = cur.unwrap_or(usize::MAX);
                    let mut sorted = self.cands.clone();
                    sorted.sort();
                    *sorted.iter().find(|&&x| c != usize::MAX && x > c).unwrap_or(&sorted[0])
                }
                // strict priorities starve everything below a task that never blocks (an
                // unlimited search); past the window that holds the change points the
                // schedule becomes fair again, as any real scheduler is
                Strategy::Pct { len, .. } if self.out.steps > 2 * len as u64 + 1000 => self.cands[self.rng.below(self.cands.len() as u64) as usize],
                Strategy::Pct { .. } => {
                    while let Some(&cp) = self.change_points.first() {
                        if cp <= self.out.steps {
                            self.change_points.remove(0);
                            if let Some(c) = cur {
                                let _ = self.prio_of(c);
                                // lower than every initial priority, later points lower still
                                self.prio[c] = self.change_points.len() as u32;
                            }
                        } else {
                            break;
                        }
                    }
                    let cands = self.cands.clone();
                    let mut best = cands[0];
                    let mut bp = self.prio_of(best);
                    for &c in &cands[1..] {
                        let p = self.prio_of(c);
                        if p > bp {
                            best = c;
                            bp = p;
                        }
                    }
                    best
                }
                Strategy::DelayOne { nth, after, max_freeze } => {
                    for &c in &self.cands {
                        if !self.seen.contains(&c) {
                            self.seen.push(c);
                        }
                    }
                    if self.victim.is_none() {
                        self.victim = self.seen.get(nth as usize).copied();
                    }
                    let mut pool = self.cands.clone();
                    if let Some(v) = self.victim {
                        if self.victim_scheduled >= after && self.frozen_for < max_freeze && pool.len() > 1 && pool.contains(&v) {
                            pool.retain(|&x| x != v);
                            self.frozen_for += 1;
                        }
                    }
                    let pick = pool[self.rng.below(pool.len() as u64) as usize];
                    if Some(pick) == self.victim {
                        self.victim_scheduled += 1;
                    }
                    pick
                }
                Strategy::StarveOne { from, len } => {
                    let s = self.out.steps;
                    if s == from as u64 {
                        self.victim = cur;
                    }
                    let mut pool = self.cands.clone();
                    if s >= from as u64 && s < from as u64 + len as u64 {
                        if let Some(v) = self.victim {
                            if pool.len() > 1 {
                                pool.retain(|&x| x != v);
                            }
                        }
                    }
                    pool[self.rng.below(pool.len() as u64) as usize]
                }
            }
        };
        self.record(pick, was_choice);
        Some(TaskId::from(pick))
    }

    fn next_u64(&mut self) -> u64 {
        self.rng.next()
    }
}
