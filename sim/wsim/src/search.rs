//! Search-level world: drives `Searcher::analyze` (public entry: control thread + search
//! thread) or `verif::analyze_sync` (explicit worker count) over a chain of searches that
//! share one artifact, injects Stop / drop faults at chosen instants, and judges the
//! recorded history against the reference rules, tablebases and solver.
//! Decides C03, C04, C06, C17, C19.

use std::cell::RefCell;
use std::collections::{BTreeMap, HashSet};

use refchess::solve::{self, Answer};
use refchess::tb::Val;
use refchess::{Mv, Pos};
use serde::{Deserialize, Serialize};
use weechess_engine::eval::Evaluator;
use weechess_engine::searcher::{verif, ControlEvent, SearchArtifact, Searcher, StatusEvent};
use weechess_simrt::world::{self, Run, Trigger, TriggerKind};

use crate::bridge;
use crate::corpus;
use crate::exec::{self, Outcome};
use crate::report::*;
use crate::rng::Rng64;
use crate::sched::{SchedSpec, Strategy};
use crate::Ctx;

pub const POS_INF: i32 = 10_000;

#[derive(Clone, Debug, Serialize, Deserialize, PartialEq)]
pub enum Entry {
    /// `Searcher::analyze`: the public entry point (worker count chosen by the engine)
    Public,
    /// `verif::analyze_sync` with an explicit worker count (None = the engine's rule)
    Sync { workers: Option<usize> },
}

#[derive(Clone, Copy, Debug, Serialize, Deserialize, PartialEq, Eq, PartialOrd, Ord)]
pub enum FaultKind {
    /// Stop after the world (or a helper task) has yielded `at` times
    StopAtStep,
    /// Stop when the run's total node count since this search started reaches `at`
    StopAtGlobalNode,
    /// Stop when some worker's own node counter reaches `at`
    StopAtLocalNode,
    /// Stop when iteration `at` (0-based) starts
    StopAtIteration,
    /// Stop after the search has completed
    StopAfterDone,
    /// drop the event receiver after `at` world steps
    DropReceiverAtStep,
    /// drop the control sender after `at` world steps
    DropSenderAtStep,
    /// keep the event receiver but stop reading it after `at` world steps (a stalled consumer)
    StallReceiverAtStep,
}

#[derive(Clone, Debug, Serialize, Deserialize, PartialEq)]
pub struct Fault {
    pub kind: FaultKind,
    pub at: u64,
    /// how many Stop messages are sent (1..3)
    pub times: u8,
}

#[derive(Clone, Debug, Serialize, Deserialize, PartialEq)]
pub struct SearchSpec {
    pub fen: String,
    pub depth: Option<u32>,
    pub seed: u64,
    pub entry: Entry,
    pub rayon_threads: usize,
    /// start from no artifact (the engine builds a fresh one) instead of inheriting
    pub fresh: bool,
    /// positions recorded in the artifact's history before this search (C17)
    #[serde(default)]
    pub history: Vec<String>,
    #[serde(default)]
    pub faults: Vec<Fault>,
}

#[derive(Clone, Debug, Serialize, Deserialize, PartialEq)]
pub struct SearchCase {
    pub prop: String,
    pub dims: (usize, usize),
    pub hasher_seed: u64,
    pub searches: Vec<SearchSpec>,
    pub post_cancel_bound: u64,
    pub node_cap: u64,
    /// C19: run the whole case this many times under different schedules and compare
    #[serde(default)]
    pub repeat: u32,
}

#[derive(Clone, Debug, PartialEq)]
pub enum Ev {
    Best { line: Vec<Mv>, eval: i32 },
    Progress { depth: u32, nodes: usize },
    Warning,
}

#[derive(Clone, Debug, Default)]
pub struct SearchRecord {
    pub events: Vec<Ev>,
    pub returned: bool,
    pub stop_before_done: bool,
    pub faults_fired: BTreeMap<String, u64>,
    pub nodes: u64,
    pub iterations: u64,
    pub post_cancel_max: u64,
    pub cancel_mid_iteration: u64,
    pub interrupts: u64,
    pub max_workers: usize,
    pub world_steps: u64,
    pub artifact_entries: usize,
    pub artifact_capacity: usize,
    pub artifact_history: usize,
}

thread_local! {
    static RECS: RefCell<Vec<SearchRecord>> = const { RefCell::new(Vec::new()) };
    static STOP_SENT: std::cell::Cell<bool> = const { std::cell::Cell::new(false) };
}

fn to_ev(e: StatusEvent) -> Ev {
    match e {
        StatusEvent::BestMove { line, evaluation } => Ev::Best { line: line.iter().map(bridge::mv_of).collect(), eval: i32::from(evaluation) },
        StatusEvent::Progress { depth, nodes_searched, .. } => Ev::Progress { depth, nodes: nodes_searched },
        StatusEvent::Warning { .. } => Ev::Warning,
    }
}

fn fault_name(k: FaultKind) -> &'static str {
    match k {
        FaultKind::StopAtStep => "stop@world-step",
        FaultKind::StopAtGlobalNode => "stop@global-node",
        FaultKind::StopAtLocalNode => "stop@worker-node",
        FaultKind::StopAtIteration => "stop@iteration-start",
        FaultKind::StopAfterDone => "stop-after-completion",
        FaultKind::DropReceiverAtStep => "drop-receiver",
        FaultKind::DropSenderAtStep => "drop-sender",
        FaultKind::StallReceiverAtStep => "stall-receiver",
    }
}

fn with_rec<R>(f: impl FnOnce(&mut SearchRecord) -> R) -> R {
    RECS.with(|r| f(r.borrow_mut().last_mut().expect("a search record is open")))
}

fn fired(kind: FaultKind, times: u8) {
    STOP_SENT.with(|s| {
        if kind != FaultKind::DropReceiverAtStep && kind != FaultKind::DropSenderAtStep && kind != FaultKind::StopAfterDone && kind != FaultKind::StallReceiverAtStep {
            s.set(true)
        }
    });
    with_rec(|r| {
        *r.faults_fired.entry(fault_name(kind).to_string()).or_insert(0) += 1;
        if times > 1 {
            *r.faults_fired.entry("stop-repeated".to_string()).or_insert(0) += 1;
        }
    });
}

fn run_one(case: &SearchCase, spec: &SearchSpec, artifact: Option<SearchArtifact>) -> Option<SearchArtifact> {
    let state = bridge::state_from_fen(&spec.fen).expect("case FEN must parse in the engine");
    let evaluator = Evaluator::default();
    let depth = spec.depth.map(|d| d as usize);
    let base = world::with(|r| {
        r.rayon_threads = spec.rayon_threads;
        r.dims = case.dims;
        r.post_cancel_bound = case.post_cancel_bound;
        r.node_cap = case.node_cap;
        r.triggers.clear();
        r.max_workers_in_iteration = 0;
        (r.probe.nodes_total, r.probe.iterations, r.probe.cancel_mid_iteration, r.probe.interrupts_observed)
    });
    RECS.with(|r| r.borrow_mut().push(SearchRecord::default()));
    STOP_SENT.with(|s| s.set(false));
    let node_faults: Vec<&Fault> = spec
        .faults
        .iter()
        .filter(|f| matches!(f.kind, FaultKind::StopAtGlobalNode | FaultKind::StopAtLocalNode | FaultKind::StopAtIteration))
        .collect();
    let trig = |f: &Fault| match f.kind {
        FaultKind::StopAtGlobalNode => (TriggerKind::GlobalNode, base.0 + f.at.max(1)),
        FaultKind::StopAtLocalNode => (TriggerKind::LocalNode, f.at.max(1)),
        _ => (TriggerKind::Iteration, f.at),
    };

    let art = match &spec.entry {
        Entry::Public => {
            let (handle, tx, rx) = Searcher::new().analyze(state, spec.seed, evaluator, depth, artifact);
            for f in &node_faults {
                let (kind, n) = trig(f);
                let txc = tx.clone();
                let (k, times) = (f.kind, f.times);
                world::with(|r| {
                    r.triggers.push(Trigger {
                        kind,
                        n,
                        action: Some(Box::new(move || {
                            fired(k, times);
                            for _ in 0..times.max(1) {
                                let _ = txc.send(ControlEvent::Stop);
                            }
                        })),
                    })
                });
            }
            let mut rx = Some(rx);
            let mut tx = Some(tx);
            let mut step: u64 = 0;
            let mut done = false;
            let mut stalled = false;
            loop {
                for f in &spec.faults {
                    if f.at != step {
                        continue;
                    }
                    match f.kind {
                        FaultKind::StopAtStep => {
                            if let Some(t) = &tx {
                                fired(f.kind, f.times);
                                for _ in 0..f.times.max(1) {
                                    let _ = t.send(ControlEvent::Stop);
                                }
                            }
                        }
                        FaultKind::DropReceiverAtStep => {
                            if rx.take().is_some() {
                                fired(f.kind, 1);
                            }
                        }
                        FaultKind::DropSenderAtStep => {
                            if tx.take().is_some() {
                                fired(f.kind, 1);
                            }
                        }
                        FaultKind::StallReceiverAtStep => {
                            if rx.is_some() && !stalled {
                                stalled = true;
                                fired(f.kind, 1);
                            }
                        }
                        _ => {}
                    }
                }
                if let (Some(r), false) = (&rx, stalled) {
                    loop {
                        match r.try_recv() {
                            Ok(ev) => with_rec(|rec| rec.events.push(to_ev(ev))),
                            Err(shuttle::sync::mpsc::TryRecvError::Empty) => break,
                            Err(shuttle::sync::mpsc::TryRecvError::Disconnected) => {
                                done = true;
                                break;
                            }
                        }
                    }
                }
                if done {
                    break;
                }
                let others = world::step();
                step += 1;
                if others == 0 {
                    break;
                }
            }
            // everything else is idle or finished: collect what is still queued
            if let (Some(r), false) = (&rx, stalled) {
                while let Ok(ev) = r.try_recv() {
                    with_rec(|rec| rec.events.push(to_ev(ev)));
                }
            }
            with_rec(|rec| {
                rec.world_steps = step;
                rec.stop_before_done = STOP_SENT.with(|s| s.get());
            });
            // triggers that did not fire must not fire later (and hold a sender clone)
            world::with(|r| r.triggers.clear());
            for f in &spec.faults {
                if f.kind == FaultKind::StopAfterDone {
                    if let Some(t) = &tx {
                        fired(f.kind, f.times);
                        for _ in 0..f.times.max(1) {
                            let _ = t.send(ControlEvent::Stop);
                        }
                    }
                }
            }
            let a = handle.join().expect("search thread result");
            drop(rx);
            drop(tx);
            a
        }
        Entry::Sync { workers } => {
            let cancel = verif::Cancel::new();
            for f in &node_faults {
                let (kind, n) = trig(f);
                let c = cancel.clone();
                let (k, times) = (f.kind, f.times);
                world::with(|r| {
                    r.triggers.push(Trigger {
                        kind,
                        n,
                        action: Some(Box::new(move || {
                            fired(k, times);
                            for _ in 0..times.max(1) {
                                c.cancel();
                            }
                        })),
                    })
                });
            }
            let mut helpers = Vec::new();
            for f in &spec.faults {
                if f.kind == FaultKind::StopAtStep {
                    let c = cancel.clone();
                    let (at, times, k) = (f.at, f.times, f.kind);
                    helpers.push(shuttle::thread::spawn(move || {
                        world::register_task("canceller".to_string());
                        for _ in 0..at {
                            shuttle::thread::yield_now();
                        }
                        fired(k, times);
                        for _ in 0..times.max(1) {
                            c.cancel();
                        }
                    }));
                }
            }
            let a = verif::analyze_sync(state, &evaluator, spec.seed, depth, *workers, &cancel, artifact, &mut |ev| {
                with_rec(|rec| rec.events.push(to_ev(ev)))
            });
            with_rec(|rec| rec.stop_before_done = STOP_SENT.with(|s| s.get()));
            world::with(|r| r.triggers.clear());
            for h in helpers {
                h.join().unwrap();
            }
            for f in &spec.faults {
                if f.kind == FaultKind::StopAfterDone {
                    fired(f.kind, f.times);
                    cancel.cancel();
                }
            }
            a
        }
    };
    let st = verif::artifact_stats(&art);
    let (nodes, its, pcm, cmi, mw, intr) = world::with(|r| {
        (
            r.probe.nodes_total - base.0,
            r.probe.iterations - base.1,
            r.probe.post_cancel_nodes_max,
            r.probe.cancel_mid_iteration - base.2,
            r.max_workers_in_iteration,
            r.probe.interrupts_observed - base.3,
        )
    });
    weechess_simrt::probe::search_returned();
    with_rec(|rec| {
        rec.returned = true;
        rec.nodes = nodes;
        rec.iterations = its;
        rec.post_cancel_max = pcm;
        rec.cancel_mid_iteration = cmi;
        rec.interrupts = intr;
        rec.max_workers = mw;
        rec.artifact_entries = st.entries;
        rec.artifact_capacity = st.max_entries;
        rec.artifact_history = st.history_len;
    });
    Some(art)
}

fn run_world(case: SearchCase) {
    let mut artifact: Option<SearchArtifact> = None;
    for spec in &case.searches {
        if spec.fresh {
            artifact = None;
        }
        // (C17 cases always hand the engine an explicit artifact, so that a search with and
        // one without recorded positions consume their random stream identically)
        if !spec.history.is_empty() || (case.prop == "C17" && artifact.is_none()) {
            let mut a = artifact.take().unwrap_or_else(|| verif::new_artifact(case.hasher_seed, case.dims.0, case.dims.1));
            for h in &spec.history {
                let s = bridge::state_from_fen(h).expect("history FEN must parse");
                verif::record_history(&mut a, &s);
            }
            artifact = Some(a);
        }
        artifact = run_one(&case, spec, artifact.take());
    }
}

pub fn step_cap(case: &SearchCase) -> u64 {
    // every node costs a handful of scheduling points (table read + write, yields of the
    // world); generous, the node cap is the real bound
    let cap = 40_000_000u64.min(case.node_cap.saturating_mul(12).max(2_000_000));
    if case.prop == "C04" {
        // Stops come early in these runs; a search that spins without searching nodes after
        // the Stop (a hang) is recognised by the step cap, so keep it tight
        cap.min(15_000_000)
    } else {
        cap
    }
}

fn execute_once(case: &SearchCase, spec: &SchedSpec) -> (exec::ExecOut<()>, Vec<SearchRecord>) {
    RECS.with(|r| r.borrow_mut().clear());
    let c = case.clone();
    let out = exec::execute(spec, Run::new(spec.seed), move || run_world(c));
    let recs = RECS.with(|r| std::mem::take(&mut *r.borrow_mut()));
    (out, recs)
}

pub fn run(ctx: &Ctx, case: &SearchCase, spec: &SchedSpec) -> RunReport {
    let (out, recs) = execute_once(case, spec);
    let mut stats = RunStats::default();
    stats.absorb_sched(&out.sched);
    let mut violations = Vec::new();
    let mut harness_error = None;
    judge(ctx, case, &recs, &out.outcome, &mut violations, &mut harness_error, &mut stats);

    // C19: the same case again under other schedules; the observable events must be identical
    if case.repeat > 1 && out.outcome == Outcome::Completed {
        let strategies = [Strategy::Sticky(900), Strategy::Uniform, Strategy::RoundRobin, Strategy::Pct { d: 3, len: 2000 }];
        for k in 1..case.repeat {
            // the pool size is part of the environment, not of (position, seed, depth): shallow
            // searches through the public entry use one worker whatever it is; and the explicit
            // single-worker entry must report the same as the public one
            let mut case_k = case.clone();
            for s in case_k.searches.iter_mut() {
                let shallow = s.depth.map(|d| d <= 3).unwrap_or(false);
                if shallow && matches!(s.entry, Entry::Public) {
                    if k == 1 {
                        s.rayon_threads = [1usize, 3, 7, 16][(spec.seed % 4) as usize];
                    } else if s.faults.is_empty() {
                        s.entry = Entry::Sync { workers: Some(1) };
                        s.rayon_threads = 1;
                    }
                }
            }
            let case = &case_k;
            let mut s2 = spec.clone();
            s2.seed = crate::rng::derive(spec.seed, 19, k as u64);
            s2.strategy = strategies[(k as usize) % strategies.len()].clone();
            s2.trace = None;
            let (o2, r2) = execute_once(case, &s2);
            stats.absorb_sched(&o2.sched);
            stats.eval("repeat-execution");
            if o2.outcome != Outcome::Completed {
                violations.push(Violation::new("C19", "same-seed-same-events", "outcome", format!("repeat {} ended with {:?}", k, o2.outcome)));
                continue;
            }
            for (i, (a, b)) in recs.iter().zip(r2.iter()).enumerate() {
                if a.events != b.events {
                    let d = a.events.iter().zip(b.events.iter()).position(|(x, y)| x != y).unwrap_or(a.events.len().min(b.events.len()));
                    violations.push(Violation::new(
                        "C19",
                        "same-seed-same-events",
                        "",
                        format!(
                            "search {} ({}), same seed {}: execution 0 and execution {} differ at event {}: {:?} vs {:?}",
                            i,
                            case.searches[i].fen,
                            case.searches[i].seed,
                            k,
                            d,
                            a.events.get(d),
                            b.events.get(d)
                        ),
                    ));
                }
            }
        }
    }

    let mut digest = FNV_INIT;
    let mut transcript = Vec::new();
    for (i, r) in recs.iter().enumerate() {
        let head = format!("search {} {} returned={} nodes={} iterations={}", i, case.searches.get(i).map(|s| s.fen.as_str()).unwrap_or("?"), r.returned, r.nodes, r.iterations);
        fnv_str(&mut digest, &head);
        transcript.push(head);
        for e in &r.events {
            let line = match e {
                Ev::Best { line, eval } => format!("  best eval={} line={}", eval, line.iter().map(|m| m.uci()).collect::<Vec<_>>().join(" ")),
                Ev::Progress { depth, nodes } => format!("  progress depth={} nodes={}", depth, nodes),
                Ev::Warning => "  warning".to_string(),
            };
            fnv_str(&mut digest, &line);
            transcript.push(line);
        }
        for (k, n) in &r.faults_fired {
            for _ in 0..*n {
                stats.fault(k);
            }
        }
        stats.nodes += r.nodes;
        if r.stop_before_done {
            stats.post_cancel_max = stats.post_cancel_max.max(r.post_cancel_max);
        }
        stats.probe_n("cancel-observed-mid-iteration", r.interrupts);
        if r.stop_before_done && r.interrupts == 0 && r.returned {
            stats.probe("stop-took-effect-between-iterations-or-too-late");
        }
        if r.max_workers >= 2 {
            stats.probe("multi-worker-iteration");
        }
        if r.artifact_capacity > 0 && r.artifact_entries * 2 > r.artifact_capacity {
            stats.probe("table-more-than-half-full");
        }
        if r.stop_before_done && r.returned {
            stats.probe("stopped-search-returned");
        }
    }
    fnv_str(&mut digest, &format!("{:?}", out.outcome));
    transcript.push(format!("outcome {:?}", out.outcome));
    RunReport { violations, harness_error, outcome: out.outcome, stats, digest, trace: out.sched.trace, diverged: out.sched.diverged, transcript }
}

fn classify_illegal(p: &Pos, m: Mv) -> &'static str {
    let pc = p.board[m.from as usize];
    let kind = pc & 7;
    let df = (m.from % 8) as i32 - (m.to % 8) as i32;
    if pc == refchess::EMPTY {
        "from-empty-square"
    } else if (pc >> 3) != p.side {
        "wrong-colour"
    } else if kind == refchess::KING && df.abs() == 2 {
        "castle"
    } else if kind == refchess::PAWN && df != 0 && p.board[m.to as usize] == refchess::EMPTY {
        "en-passant"
    } else {
        "other"
    }
}

fn judge(
    ctx: &Ctx,
    case: &SearchCase,
    recs: &[SearchRecord],
    outcome: &Outcome,
    v: &mut Vec<Violation>,
    harness_error: &mut Option<String>,
    stats: &mut RunStats,
) {
    let empty: HashSet<String> = HashSet::new();
    // positions the artifact's history holds: every earlier search root on this artifact
    // (the engine records them itself) plus whatever the case injected through the hook
    let mut recorded: HashSet<String> = HashSet::new();
    for (i, r) in recs.iter().enumerate() {
        let spec = &case.searches[i];
        if spec.fresh {
            recorded.clear();
        }
        for h in &spec.history {
            if let Some(p) = Pos::from_fen(h) {
                recorded.insert(solve::key(&p));
            }
        }
        let recorded_before = recorded.clone();
        if let Some(p) = Pos::from_fen(&spec.fen) {
            recorded.insert(solve::key(&p));
        }
        let Some(pos) = Pos::from_fen(&spec.fen) else {
            *harness_error = Some(format!("bad FEN in case: {}", spec.fen));
            return;
        };
        let root_moves = pos.legal_moves();
        let terminal = root_moves.is_empty();
        let stopped = r.stop_before_done;
        let bests: Vec<(&Vec<Mv>, i32)> = r.events.iter().filter_map(|e| if let Ev::Best { line, eval } = e { Some((line, *eval)) } else { None }).collect();

        // ---- C03: every reported line is non-empty and legal
        for (line, _) in &bests {
            stats.eval("C03:line-replayed");
            if line.is_empty() {
                v.push(Violation::new("C03", "line-nonempty", "", format!("search {} of {} reported an empty line", i, spec.fen)));
                continue;
            }
            let mut p = pos.clone();
            for (j, m) in line.iter().enumerate() {
                if !p.is_legal(*m) {
                    let class = classify_illegal(&p, *m);
                    v.push(Violation::new(
                        "C03",
                        "line-legal",
                        &format!("{}:{}", if j == 0 { "first-move" } else { "later-move" }, class),
                        format!(
                            "search {} of '{}' reported line [{}]; move {} ({}) is illegal in '{}'",
                            i,
                            spec.fen,
                            line.iter().map(|m| m.uci()).collect::<Vec<_>>().join(" "),
                            j,
                            m.uci(),
                            p.fen()
                        ),
                    ));
                    break;
                }
                p = p.make(*m);
            }
        }
        // (with the receiver dropped the reports cannot be observed)
        let receiver_dropped = r.faults_fired.contains_key("drop-receiver") || r.faults_fired.contains_key("stall-receiver");
        // A stopped search has ended too: the first iteration always runs (it stays far below
        // the first cancellation poll), so a report is due whenever the search returns.
        if !terminal && r.returned && !receiver_dropped {
            stats.eval("C03:report-made");
            if bests.is_empty() {
                v.push(Violation::new(
                    "C03",
                    "report-made",
                    if stopped { "stopped" } else { "" },
                    format!("search {} of '{}' (depth {:?}, {}) ended without reporting a best line", i, spec.fen, spec.depth, if stopped { "stopped" } else { "not stopped" }),
                ));
            }
        }

        // ---- C04: terminal roots report nothing
        if terminal {
            stats.eval("C04:terminal-root");
            stats.probe("terminal-root-searched");
            if !bests.is_empty() {
                v.push(Violation::new("C04", "terminal-reports-nothing", "", format!("search of terminal position '{}' reported a move", spec.fen)));
            }
        }
        if r.returned {
            stats.eval("C04:artifact-returned");
        }

        // ---- C06: soundness of every mate claim, on everything the tablebases decide
        for (line, eval) in &bests {
            if *eval >= POS_INF && !line.is_empty() && pos.is_legal(line[0]) {
                match ctx.tb.probe(&pos) {
                    Some(Val::Win(_)) => {
                        stats.eval("C06:claim-checked-tb");
                        if ctx.tb.move_keeps_win(&pos, line[0]) != Some(true) {
                            v.push(Violation::new(
                                "C06",
                                "mate-claim-first-move",
                                "",
                                format!("'{}': evaluation {} claims a forced mate but the reported first move {} does not keep it (tablebase)", spec.fen, eval, line[0].uci()),
                            ));
                        }
                    }
                    Some(other) => {
                        stats.eval("C06:claim-checked-tb");
                        v.push(Violation::new(
                            "C06",
                            "mate-claim-false",
                            "",
                            format!("'{}': evaluation {} claims a forced mate for the side to move, tablebase value is {:?}", spec.fen, eval, other),
                        ));
                    }
                    None => {
                        // outside the tablebases only a positive confirmation is possible
                        match solve::forced_mate(&pos, 5, &empty, 150_000) {
                            Answer::Yes => stats.eval("C06:claim-confirmed-solver"),
                            _ => stats.eval("C06:claim-undecided"),
                        }
                    }
                }
            }
        }

        // ---- C06 completeness / C17, only for unstopped depth-limited searches
        let Some(d) = spec.depth else { continue };
        if stopped || !r.returned || terminal || receiver_dropped {
            continue;
        }
        let fresh = spec.fresh || i == 0;
        if recorded_before.is_empty() && fresh {
            let n = match ctx.tb.probe(&pos) {
                Some(Val::Win(n)) => Some(n),
                Some(_) => None,
                None if case.prop == "C06" => solve::mate_distance(&pos, 5.min(d), &empty, 400_000).ok().flatten(),
                None => None,
            };
            if let Some(n) = n {
                if n <= d {
                    stats.eval("C06:completeness");
                    match bests.last() {
                        Some((line, eval)) if *eval >= POS_INF => {
                            let keeps = match ctx.tb.move_keeps_win(&pos, line[0]) {
                                Some(b) => Some(b),
                                None => match solve::move_keeps_mate(&pos, line[0], 9, &empty, 400_000) {
                                    Answer::Yes => Some(true),
                                    _ => None,
                                },
                            };
                            match keeps {
                                Some(false) => v.push(Violation::new(
                                    "C06",
                                    "mate-first-move",
                                    "",
                                    format!("'{}' (mate in {} plies, depth {}): reported first move {} does not preserve the forced mate", spec.fen, n, d, line[0].uci()),
                                )),
                                Some(true) => {}
                                None => stats.eval("C06:first-move-undecided"),
                            }
                        }
                        Some((_, eval)) => v.push(Violation::new(
                            "C06",
                            "mate-missed",
                            "",
                            format!("'{}': side to move mates in {} plies, search to depth {} from fresh memory ended with evaluation {}", spec.fen, n, d, eval),
                        )),
                        None => {}
                    }
                }
            }
        }
        if !recorded_before.is_empty() && case.prop == "C17" {
            // the game in which *entering* a recorded position (or the root again) is a draw
            let mut drawn: HashSet<String> = recorded_before.clone();
            drawn.insert(solve::key(&pos));
            if ctx.tb.probe(&pos).is_none() {
                // outside the tablebases: bounded solver; only decided answers are used
                if let Ok(Some(n)) = solve::mate_distance(&pos, d.min(5), &drawn, 400_000) {
                    stats.eval("C17:modified-game-mate-solver");
                    match bests.last() {
                        Some((line, eval)) if *eval >= POS_INF => {
                            let child = pos.make(line[0]);
                            if drawn.contains(&solve::key(&child)) {
                                v.push(Violation::new(
                                    "C17",
                                    "repeating-move-chosen",
                                    "solver",
                                    format!("'{}' with recorded {:?}: reported first move {} enters a recorded position", spec.fen, recorded_before, line[0].uci()),
                                ));
                            }
                        }
                        Some((line, eval)) => v.push(Violation::new(
                            "C17",
                            "mate-missed",
                            "solver",
                            format!(
                                "'{}' with recorded {:?}: a mate in {} plies avoiding the recorded positions exists, depth {} search ended with evaluation {} (first move {})",
                                spec.fen,
                                recorded_before,
                                n,
                                d,
                                eval,
                                line.first().map(|m| m.uci()).unwrap_or_default()
                            ),
                        )),
                        None => {}
                    }
                }
            } else if let Some(Val::Win(_)) = ctx.tb.probe(&pos) {
                let n = modified_mate_distance(ctx, &pos, d, &drawn);
                if let Some(n) = n {
                    stats.eval("C17:modified-game-mate");
                    match bests.last() {
                        Some((line, eval)) if *eval >= POS_INF => {
                            let child = pos.make(line[0]);
                            if drawn.contains(&solve::key(&child)) {
                                v.push(Violation::new(
                                    "C17",
                                    "repeating-move-chosen",
                                    "",
                                    format!("'{}' with recorded {:?}: reported first move {} enters a recorded position", spec.fen, recorded_before, line[0].uci()),
                                ));
                            } else if ctx.tb.move_keeps_win(&pos, line[0]) != Some(true) {
                                v.push(Violation::new("C17", "mate-first-move", "", format!("'{}': first move {} does not keep the win", spec.fen, line[0].uci())));
                            }
                        }
                        Some((line, eval)) => v.push(Violation::new(
                            "C17",
                            "mate-missed",
                            "",
                            format!(
                                "'{}' with recorded {:?}: a mate in {} plies avoiding the recorded positions exists, depth {} search ended with evaluation {} (first move {})",
                                spec.fen,
                                recorded_before,
                                n,
                                d,
                                eval,
                                line.first().map(|m| m.uci()).unwrap_or_default()
                            ),
                        )),
                        None => {}
                    }
                }
            }
        }
    }

    // ---- C17 not over-applied: a control pair (same position, seed, depth, one worker, fresh
    // memory; the second with positions recorded that the search cannot reach)
    if case.prop == "C17" && case.searches.len() == 2 && recs.len() == 2 {
        let (a, b) = (&case.searches[0], &case.searches[1]);
        if a.fen == b.fen && a.seed == b.seed && a.depth == b.depth && a.fresh && b.fresh && a.history.is_empty() && !b.history.is_empty() {
            stats.eval("C17:not-over-applied");
            if recs[0].events != recs[1].events {
                v.push(Violation::new(
                    "C17",
                    "over-applied",
                    "",
                    format!("'{}' depth {:?}: recording {:?} (none of which the search can reach) changed the search's reports", a.fen, a.depth, b.history),
                ));
            }
        }
    }

    // ---- how the run ended
    let running = recs.len().saturating_sub(1);
    let cur = case.searches.get(running);
    let cur_terminal = cur.and_then(|s| Pos::from_fen(&s.fen)).map(|p| p.legal_moves().is_empty()).unwrap_or(false);
    let stop_sent = recs.last().map(|r| r.stop_before_done).unwrap_or(false) || STOP_SENT.with(|s| s.get());
    match outcome {
        Outcome::Completed => {}
        Outcome::Panic { msg, loc } => {
            let class = if cur_terminal { "terminal-root" } else { "root-with-moves" };
            v.push(Violation::new(
                "C04",
                "no-panic",
                &format!("{}:{}", loc, class),
                format!("search {} of '{}' panicked: {} at {}", running, cur.map(|s| s.fen.as_str()).unwrap_or("?"), msg, loc),
            ));
            if msg.contains("line.is_empty()") && !cur_terminal {
                v.push(Violation::new("C03", "line-nonempty", "assert", format!("search of '{}': {} at {}", cur.map(|s| s.fen.as_str()).unwrap_or("?"), msg, loc)));
            }
        }
        Outcome::Abort { msg } if msg.contains("post-cancel") => {
            v.push(Violation::new(
                "C04",
                "stop-prompt",
                "",
                format!("search {} of '{}': a worker searched more than {} nodes after the cancellation signal", running, cur.map(|s| s.fen.as_str()).unwrap_or("?"), case.post_cancel_bound),
            ));
        }
        Outcome::Abort { .. } | Outcome::StepCap => {
            let what = match outcome {
                Outcome::Abort { msg } => msg.clone(),
                _ => "step cap reached".to_string(),
            };
            // a shallow depth-limited search needs a small fraction of the caps
            let shallow = cur.and_then(|s| s.depth).map(|d| d <= 4).unwrap_or(false);
            if stop_sent {
                v.push(Violation::new(
                    "C04",
                    "stop-honoured",
                    if matches!(outcome, Outcome::StepCap) { "step-cap" } else { "" },
                    format!("search {} of '{}' kept running after Stop ({})", running, cur.map(|s| s.fen.as_str()).unwrap_or("?"), what),
                ));
            } else if shallow {
                v.push(Violation::new(
                    "C04",
                    "depth-limited-finishes",
                    "",
                    format!("search {} of '{}' with depth limit {:?} did not finish by itself ({})", running, cur.map(|s| s.fen.as_str()).unwrap_or("?"), cur.and_then(|s| s.depth), what),
                ));
            } else {
                *harness_error = Some(format!("workload too large: {} (no Stop had been sent)", what));
            }
        }
        Outcome::Deadlock { msg } => {
            v.push(Violation::new("C04", "search-ends", "deadlock", format!("search {} of '{}': {}", running, cur.map(|s| s.fen.as_str()).unwrap_or("?"), msg)));
        }
    }
}

/// Mate distance (plies, <= max) in the game where entering a position of `drawn` is a
/// draw, pruned by the tablebase (the real distance to mate bounds the modified one).
pub fn modified_mate_distance(ctx: &Ctx, pos: &Pos, max: u32, drawn: &HashSet<String>) -> Option<u32> {
    fn attacker(ctx: &Ctx, p: &Pos, plies: u32, drawn: &HashSet<String>) -> bool {
        if plies == 0 {
            return false;
        }
        match ctx.tb.probe(p) {
            Some(Val::Win(n)) if n <= plies => {}
            _ => return false,
        }
        for m in p.legal_moves() {
            let c = p.make(m);
            if drawn.contains(&solve::key(&c)) {
                continue;
            }
            let replies = c.legal_moves();
            if replies.is_empty() {
                if c.in_check() {
                    return true;
                }
                continue;
            }
            if plies < 3 {
                continue;
            }
            match ctx.tb.probe(&c) {
                Some(Val::Loss(n)) if n + 1 <= plies => {}
                _ => continue,
            }
            let mut all = true;
            for r in replies {
                let g = c.make(r);
                if drawn.contains(&solve::key(&g)) || !attacker(ctx, &g, plies - 2, drawn) {
                    all = false;
                    break;
                }
            }
            if all {
                return true;
            }
        }
        false
    }
    let mut n = 1;
    while n <= max {
        if attacker(ctx, pos, n, drawn) {
            return Some(n);
        }
        n += 2;
    }
    None
}

// ------------------------------------------------------------------ generation

const PRESSURE_DIMS: &[(usize, usize)] = &[(1, 1), (1, 4), (2, 8), (8, 64), (8, 1024)];
const WORKERS: &[usize] = &[1, 2, 3, 4, 8, 16, 32];

fn pick_position(ctx: &Ctx, rng: &mut Rng64) -> Pos {
    match rng.below(10) {
        0..=2 => Pos::from_fen(rng.pick(corpus::NORMAL)).unwrap(),
        3..=4 => Pos::from_fen(rng.pick(corpus::RIGHTS)).unwrap(),
        5 => Pos::from_fen(rng.pick(corpus::SPECIAL)).unwrap(),
        6..=7 => {
            let start = if rng.chance(600) { Pos::start() } else { Pos::from_fen(rng.pick(corpus::NORMAL)).unwrap() };
            let plies = rng.below(60) as u32 + 4;
            corpus::random_play(rng, &start, plies).0
        }
        8 => {
            let p = corpus::random_tb_pos(rng);
            if p.legal_moves().is_empty() {
                Pos::from_fen(corpus::SPECIAL[8]).unwrap()
            } else {
                p
            }
        }
        _ => {
            let _ = ctx;
            match rng.below(4) {
                0 => corpus::random_heavy(rng),
                1 => corpus::random_rich(rng),
                2 => Pos::from_fen(rng.pick(corpus::SPECIAL_MATES).1).unwrap(),
                _ => corpus::random_pawn_endgame(rng),
            }
        }
    }
}

fn entry_for(rng: &mut Rng64, depth: Option<u32>) -> (Entry, usize, usize) {
    // returns (entry, rayon_threads, effective max workers)
    if rng.chance(400) {
        let rt = *rng.pick(&[1usize, 2, 4, 8]);
        (Entry::Public, rt, if depth.map(|d| d > 3).unwrap_or(true) { rt } else { 1 })
    } else {
        let w = *rng.pick(WORKERS);
        (Entry::Sync { workers: Some(w) }, w, w)
    }
}

/// Search seeds are mostly random, sometimes one of the extremes.
fn pick_seed(rng: &mut Rng64) -> u64 {
    match rng.below(20) {
        0 => 0,
        1 => u64::MAX,
        2 => 1,
        _ => rng.next(),
    }
}

fn light_depth(rng: &mut Rng64, workers: usize) -> u32 {
    if workers >= 8 {
        1 + rng.below(3) as u32
    } else {
        1 + rng.below(4) as u32
    }
}

pub fn generate(ctx: &Ctx, prop: &str, rng: &mut Rng64, thorough: bool, index: u64) -> SearchCase {
    let mut case = SearchCase {
        prop: prop.to_string(),
        dims: (8, 64),
        hasher_seed: rng.next(),
        searches: Vec::new(),
        post_cancel_bound: ctx.post_cancel_bound,
        node_cap: 3_000_000,
        repeat: 0,
    };
    match prop {
        "C04" if rng.chance(60) => {
            // the same position again on a tiny table with several workers: the root is answered
            // from the table while other workers displace entries of the same bucket
            case.dims = *rng.pick(&[(1usize, 1usize), (1, 2), (1, 4), (2, 8)]);
            let p = pick_position(ctx, rng);
            let d = 2 + rng.below(3) as u32;
            for round in 0..(2 + rng.below(2)) {
                let w = *rng.pick(&[2usize, 3, 4, 8]);
                let depth = if round == 0 { d } else { 1 + rng.below(d as u64) as u32 };
                let mut faults = Vec::new();
                if rng.chance(200) {
                    faults.push(Fault { kind: FaultKind::StopAtGlobalNode, at: 1 + rng.below(2_000), times: 1 });
                }
                case.searches.push(SearchSpec { fen: p.fen(), depth: Some(if w >= 8 { depth.min(3) } else { depth }), seed: pick_seed(rng), entry: Entry::Sync { workers: Some(w) }, rayon_threads: w, fresh: false, history: vec![], faults });
            }
        }
        "C03" | "C04" if rng.chance(if prop == "C04" { 70 } else { 40 }) => {
            // stepping back: every successor of a position with one or two legal moves has been
            // a search root on this memory (terminal successors included), then the position
            // itself is searched - all its root moves lead into recorded positions
            case.dims = *rng.pick(&[(8usize, 64usize), (8, 1024), (2, 8)]);
            let max_moves = if rng.chance(700) { 1 } else { 2 };
            let a = corpus::random_forced(rng, max_moves);
            for m in a.legal_moves() {
                let b = a.make(m);
                let d = 1 + rng.below(2) as u32;
                case.searches.push(SearchSpec { fen: b.fen(), depth: Some(d), seed: pick_seed(rng), entry: Entry::Sync { workers: Some(1) }, rayon_threads: 1, fresh: false, history: vec![], faults: vec![] });
            }
            let d = 1 + rng.below(3) as u32;
            let (entry, rt, _) = entry_for(rng, Some(d));
            let mut faults = Vec::new();
            if rng.chance(250) {
                faults.push(Fault { kind: FaultKind::StopAtStep, at: rng.below(30), times: 1 });
            }
            case.searches.push(SearchSpec { fen: a.fen(), depth: Some(d), seed: pick_seed(rng), entry, rayon_threads: rt, fresh: false, history: vec![], faults });
            case.searches.push(SearchSpec { fen: a.fen(), depth: Some(2), seed: pick_seed(rng), entry: Entry::Sync { workers: Some(1) }, rayon_threads: 1, fresh: false, history: vec![], faults: vec![] });
        }
        "C03" if rng.chance(70) => {
            // a pawn about to promote: the best line holds a promotion and later moves of the
            // promoted piece. Searched deep enough for a long line, then each promotion is
            // played, the opponent replies, and the result is searched on the same memory.
            case.dims = *rng.pick(&[(8usize, 1024usize), (8, 64)]);
            let p = corpus::random_promotion_race(rng);
            let w = *rng.pick(&[1usize, 1, 2, 4]);
            let d = 4 + rng.below(if thorough { 3 } else { 2 }) as u32;
            let (entry, rt) = if rng.chance(700) { (Entry::Sync { workers: Some(w) }, w) } else { (Entry::Public, w) };
            case.node_cap = 6_000_000;
            case.searches.push(SearchSpec { fen: p.fen(), depth: Some(if w > 2 { 4 } else { d }), seed: pick_seed(rng), entry, rayon_threads: rt, fresh: false, history: vec![], faults: vec![] });
            let promos: Vec<Mv> = p.legal_moves().into_iter().filter(|m| m.promo != 0).collect();
            let mut picked = promos.clone();
            while picked.len() > 2 {
                let i = rng.below(picked.len() as u64) as usize;
                picked.remove(i);
            }
            for m in picked {
                let q = p.make(m);
                let replies = q.legal_moves();
                if replies.is_empty() {
                    continue;
                }
                let r = q.make(*rng.pick(&replies));
                if r.legal_moves().is_empty() {
                    continue;
                }
                case.searches.push(SearchSpec { fen: r.fen(), depth: Some(1 + rng.below(3) as u32), seed: pick_seed(rng), entry: Entry::Sync { workers: Some(1) }, rayon_threads: 1, fresh: false, history: vec![], faults: vec![] });
            }
        }
        "C03" if rng.chance(60) => {
            // the same position again on the same memory, with a Stop that is already waiting
            // when the search comes to life: whatever the table says about the root (a mate
            // score against the side to move included), something must still be reported
            case.dims = *rng.pick(&[(8usize, 64usize), (8, 1024), (2, 8)]);
            let p = if rng.chance(500) {
                let mut q = corpus::random_tb_pos(rng);
                while q.legal_moves().is_empty() || !matches!(ctx.tb.probe(&q), Some(Val::Loss(n)) if n <= 6) {
                    q = corpus::random_tb_pos(rng);
                }
                q
            } else {
                pick_position(ctx, rng)
            };
            let d = 2 + rng.below(3) as u32;
            let (entry, rt, _) = entry_for(rng, Some(d));
            case.searches.push(SearchSpec { fen: p.fen(), depth: Some(d), seed: pick_seed(rng), entry, rayon_threads: rt, fresh: false, history: vec![], faults: vec![] });
            let (entry, rt, _) = entry_for(rng, Some(d));
            let d2 = if rng.chance(500) { Some(1 + rng.below(d as u64) as u32) } else { None };
            let mut faults = vec![Fault { kind: FaultKind::StopAtStep, at: rng.below(2), times: 1 }];
            if d2.is_none() {
                faults.push(Fault { kind: FaultKind::StopAtGlobalNode, at: 60_000, times: 1 });
            }
            case.searches.push(SearchSpec { fen: p.fen(), depth: d2, seed: pick_seed(rng), entry, rayon_threads: rt, fresh: false, history: vec![], faults });
        }
        "C03" if rng.chance(250) => {
            // a game going forward on a small table: each position is searched after one of its
            // predecessors was searched deeper, so the new root usually already has an entry
            // (it is answered from the table, or searched inside a window narrowed by it) while
            // the rest of the table is under displacement pressure
            case.dims = *rng.pick(&[(1usize, 1usize), (1, 2), (1, 4), (1, 4), (2, 8), (8, 64)]);
            let mut p = pick_position(ctx, rng);
            let n = 2 + rng.below(3) as usize;
            let mut depth = 3 + rng.below(if thorough { 3 } else { 2 }) as u32;
            for i in 0..n {
                let (entry, rt, w) = entry_for(rng, Some(depth));
                let d = if w >= 8 { depth.min(3) } else { depth };
                let mut faults = Vec::new();
                if rng.chance(300) {
                    faults.push(Fault { kind: FaultKind::StopAtGlobalNode, at: 20 + rng.below(1500), times: 1 });
                }
                case.searches.push(SearchSpec { fen: p.fen(), depth: Some(d), seed: pick_seed(rng), entry, rayon_threads: rt, fresh: false, history: vec![], faults });
                if i + 1 < n {
                    let k = 1 + rng.below(2) as u32;
                    let q = corpus::random_play(rng, &p, k).0;
                    if q.legal_moves().is_empty() || q == p {
                        break;
                    }
                    p = q;
                    depth = depth.saturating_sub(rng.below(2) as u32 + if k == 2 { 1 } else { 0 }).max(1);
                }
            }
        }
        "C03" => {
            case.dims = *rng.pick(PRESSURE_DIMS);
            let p = pick_position(ctx, rng);
            let nhist = if thorough { *rng.pick(&[0usize, 1, 1, 2, 2, 3, 3, 4]) } else { *rng.pick(&[0usize, 1, 1, 2, 2, 3]) };
            let mut chain: Vec<Pos> = Vec::new();
            for _ in 0..nhist {
                let q = match rng.below(9) {
                    8 => p.clone(), // the very same position, searched before (a game revisits it)
                    0..=3 => {
                        let sibs = corpus::siblings(&p);
                        if sibs.is_empty() {
                            corpus::random_play(rng, &p, 1).0
                        } else {
                            rng.pick(&sibs).clone()
                        }
                    }
                    4 => {
                        let k = 1 + rng.below(2) as u32;
                        corpus::random_play(rng, &p, k).0
                    }
                    5 => {
                        // a sibling of a successor / the successor of a sibling
                        let s = corpus::random_play(rng, &p, 1).0;
                        let sibs = corpus::siblings(&s);
                        if sibs.is_empty() {
                            s
                        } else {
                            rng.pick(&sibs).clone()
                        }
                    }
                    _ => pick_position(ctx, rng),
                };
                if !q.legal_moves().is_empty() {
                    chain.push(q);
                }
            }
            chain.push(p);
            let n = chain.len();
            for (i, q) in chain.into_iter().enumerate() {
                let last = i + 1 == n;
                let d0 = 1 + rng.below(if thorough { 5 } else { 4 }) as u32;
                let (entry, rt, w) = entry_for(rng, Some(d0));
                let depth = if w >= 8 { d0.min(3) } else if w > 2 { d0.min(4) } else { d0 };
                let mut faults = Vec::new();
                if (!last && rng.chance(200)) || (last && rng.chance(150)) {
                    faults.push(Fault { kind: FaultKind::StopAtGlobalNode, at: 1 + rng.below(3000), times: 1 });
                } else if rng.chance(100) {
                    // a Stop that is already there when the search thread comes to life
                    faults.push(Fault { kind: FaultKind::StopAtStep, at: rng.below(3), times: 1 });
                }
                case.searches.push(SearchSpec { fen: q.fen(), depth: Some(depth), seed: pick_seed(rng), entry, rayon_threads: rt, fresh: false, history: vec![], faults });
            }
        }
        "C04" => {
            case.dims = *rng.pick(&[(8usize, 64usize), (8, 1024), (2, 8), (8, 1024)]);
            let kind = rng.below(100);
            let (pos, heavy) = if kind < 22 {
                // terminal roots
                let p = match rng.below(3) {
                    0 => Pos::from_fen(rng.pick(corpus::TERMINAL)).unwrap(),
                    1 => corpus::tb_terminal(rng, true),
                    _ => corpus::tb_terminal(rng, false),
                };
                (p, false)
            } else if kind < 40 {
                (Pos::from_fen(rng.pick(corpus::LOCKED)).unwrap(), rng.chance(500))
            } else if kind < 47 {
                // sparse endgames searched without a depth limit: small trees whose stored
                // best-move chains cycle, long distances to mate
                let p = match rng.below(4) {
                    0 => {
                        let n = *rng.pick(&[13u32, 15, 17, 19, 21, 25]);
                        corpus::tb_win_in(rng, &ctx.tb, n)
                    }
                    1 => {
                        let mut p = corpus::random_tb_pos(rng);
                        while p.legal_moves().is_empty() || !matches!(ctx.tb.probe(&p), Some(Val::Loss(n)) if n >= 10) {
                            p = corpus::random_tb_pos(rng);
                        }
                        p
                    }
                    2 => Pos::from_fen(rng.pick(&["8/P6k/8/8/8/8/7K/8 w - - 0 1", "6k1/5ppp/8/8/8/8/5PPP/3R2K1 w - - 0 1", "8/5k2/8/8/8/8/1p4K1/8 b - - 0 1", "4k3/8/8/8/8/8/4P3/4K3 w - - 0 1", "8/8/4k3/8/8/4K3/4P3/8 w - - 0 1"])).unwrap(),
                    _ => {
                        let mut p = corpus::random_tb_pos(rng);
                        while p.legal_moves().is_empty() || !matches!(ctx.tb.probe(&p), Some(Val::Win(n)) if n >= 11) {
                            p = corpus::random_tb_pos(rng);
                        }
                        p
                    }
                };
                (p, true)
            } else if kind < 70 {
                (pick_position(ctx, rng), false)
            } else {
                (Pos::from_fen(rng.pick(corpus::NORMAL)).unwrap(), true)
            };
            let endgame_heavy = heavy && (40..47).contains(&kind);
            // Locked positions make iterations nearly free: a few runs let dozens of them
            // complete (deep depth limit, or no limit and a late Stop) while the caller keeps
            // the event receiver without reading it - a stalled consumer must not stall the search.
            if (22..40).contains(&kind) && rng.chance(250) {
                // only the truly locked positions keep forty iterations cheap
                let pos = Pos::from_fen(corpus::LOCKED[rng.below(2) as usize]).unwrap();
                // (and only with a table that holds the whole reachable state space: a deep
                // search without transpositions is exponential even here)
                case.dims = (8, 1024);
                let unlimited = rng.chance(400);
                let mut faults = Vec::new();
                if unlimited {
                    faults.push(Fault { kind: FaultKind::StopAtGlobalNode, at: 20_000 + rng.below(40_000), times: 1 });
                }
                if rng.chance(650) {
                    faults.push(Fault { kind: FaultKind::StallReceiverAtStep, at: rng.below(10), times: 1 });
                }
                case.searches.push(SearchSpec {
                    fen: pos.fen(),
                    depth: if unlimited { None } else { Some(34 + rng.below(15) as u32) },
                    seed: rng.next(),
                    entry: Entry::Public,
                    rayon_threads: *rng.pick(&[1usize, 2, 2]),
                    fresh: false,
                    history: vec![],
                    faults,
                });
                case.searches.push(SearchSpec { fen: pos.fen(), depth: Some(2), seed: pick_seed(rng), entry: Entry::Sync { workers: Some(1) }, rayon_threads: 1, fresh: false, history: vec![], faults: vec![] });
                return case;
            }
            let depth = if heavy { None } else { Some(*rng.pick(&[1u32, 1, 2, 2, 3, 3, 4])) };
            // a few runs place the Stop deep inside a large iteration (hundreds of thousands
            // of nodes per worker), where only the periodic poll can honour it
            let very_heavy = heavy && kind >= 70 && rng.chance(60);
            let workers = if very_heavy {
                *rng.pick(&[1usize, 2])
            } else if endgame_heavy {
                *rng.pick(&[2usize, 2, 4, 8])
            } else {
                *rng.pick(&[1usize, 2, 4, 8])
            };
            let (entry, rt) = if rng.chance(500) { (Entry::Public, workers) } else { (Entry::Sync { workers: Some(workers) }, workers) };
            let mut faults = Vec::new();
            let times = *rng.pick(&[1u8, 1, 1, 2, 3]);
            if heavy {
                // must reach a poll: Stop somewhere in the first tens of thousands of nodes
                let f = match rng.below(6) {
                    0 => Fault { kind: FaultKind::StopAtStep, at: index % 65, times },
                    1 => Fault { kind: FaultKind::StopAtLocalNode, at: [1u64, 2, 9_999, 10_000, 10_001, 19_999, 20_000][(index % 7) as usize], times },
                    2 => Fault { kind: FaultKind::StopAtGlobalNode, at: 1 + rng.below(60_000), times },
                    3 => Fault { kind: FaultKind::StopAtIteration, at: rng.below(6), times },
                    4 => Fault { kind: FaultKind::StopAtStep, at: rng.below(20_000), times },
                    _ => Fault { kind: FaultKind::StopAtGlobalNode, at: 1 + rng.below(3_000), times },
                };
                let f = if very_heavy {
                    Fault { kind: FaultKind::StopAtGlobalNode, at: 120_000 + rng.below(250_000), times: 1 }
                } else if endgame_heavy && rng.chance(800) {
                    Fault { kind: FaultKind::StopAtGlobalNode, at: 15_000 + rng.below(250_000), times }
                } else {
                    f
                };
                // a Stop keyed to a worker's own counter or to an iteration may never come due
                // (small iterations); an unlimited search always also gets one that will
                if matches!(f.kind, FaultKind::StopAtLocalNode | FaultKind::StopAtIteration) {
                    faults.push(Fault { kind: FaultKind::StopAtGlobalNode, at: 120_000, times: 1 });
                }
                faults.push(f);
                if rng.chance(200) {
                    faults.push(Fault { kind: FaultKind::StopAfterDone, at: 0, times: 1 });
                }
            } else {
                match rng.below(10) {
                    0..=2 => faults.push(Fault { kind: FaultKind::StopAtStep, at: index % 65, times }),
                    3 => faults.push(Fault { kind: FaultKind::StopAtLocalNode, at: 1 + rng.below(400), times }),
                    4 => faults.push(Fault { kind: FaultKind::StopAtIteration, at: rng.below(4), times }),
                    5 => faults.push(Fault { kind: FaultKind::StopAfterDone, at: 0, times }),
                    6 => faults.push(Fault { kind: FaultKind::StopAtGlobalNode, at: 1 + rng.below(2_000), times }),
                    _ => {}
                }
            }
            if entry == Entry::Public {
                if rng.chance(250) {
                    faults.push(Fault { kind: FaultKind::DropReceiverAtStep, at: rng.below(40), times: 1 });
                } else if rng.chance(200) {
                    faults.push(Fault { kind: FaultKind::StallReceiverAtStep, at: rng.below(40), times: 1 });
                }
                if depth.is_some() && rng.chance(120) {
                    faults.push(Fault { kind: FaultKind::DropSenderAtStep, at: rng.below(40), times: 1 });
                    // without a sender no Stop can arrive any more: keep only Stops that are
                    // delivered through probes (they hold their own clone)
                }
            }
            // The shipped table (1 GiB) never displaces anything within a session, a regime
            // the small tables above cannot reproduce for long searches. A few runs therefore
            // chain several long endgame searches on one *large* table with many workers.
            if endgame_heavy && rng.chance(450) {
                case.dims = (32, 8192);
                case.node_cap = 4_000_000;
                let w = *rng.pick(&[8usize, 16, 16]);
                for _ in 0..3 {
                    let mut q = corpus::random_tb_pos(rng);
                    while q.legal_moves().is_empty() || !matches!(ctx.tb.probe(&q), Some(Val::Win(n)) if n >= 9) {
                        q = corpus::random_tb_pos(rng);
                    }
                    case.searches.push(SearchSpec {
                        fen: q.fen(),
                        depth: None,
                        seed: rng.next(),
                        entry: Entry::Public,
                        rayon_threads: w,
                        fresh: false,
                        history: vec![],
                        faults: vec![Fault { kind: FaultKind::StopAtGlobalNode, at: 50_000 + rng.below(350_000), times: 1 }],
                    });
                }
                return case;
            }
            // the shipped default is 32 workers from the fourth iteration on: a few runs stop an
            // unlimited search of an ordinary position with all 32 at work
            if heavy && kind >= 70 && rng.chance(90) {
                case.dims = (8, 1024);
                case.node_cap = 6_000_000;
                case.searches.push(SearchSpec {
                    fen: pos.fen(),
                    depth: None,
                    seed: pick_seed(rng),
                    entry: if rng.chance(500) { Entry::Public } else { Entry::Sync { workers: None } },
                    rayon_threads: 32,
                    fresh: false,
                    history: vec![],
                    faults: vec![Fault { kind: FaultKind::StopAtGlobalNode, at: 60_000 + rng.below(500_000), times: 1 }],
                });
                case.searches.push(SearchSpec { fen: pos.fen(), depth: Some(2), seed: pick_seed(rng), entry: Entry::Sync { workers: Some(1) }, rayon_threads: 1, fresh: false, history: vec![], faults: vec![] });
                return case;
            }
            let first_fresh = if endgame_heavy { rng.chance(400) } else { rng.chance(700) };
            if !first_fresh {
                // inherited artifact: one small earlier search
                let q = if endgame_heavy {
                    // the same game: a position a move or two away (or the position itself)
                    let k = rng.below(3) as u32;
                    corpus::random_play(rng, &pos, k).0
                } else {
                    pick_position(ctx, rng)
                };
                let d0 = if endgame_heavy { 3 + rng.below(3) as u32 } else { 2 };
                case.searches.push(SearchSpec { fen: q.fen(), depth: Some(d0), seed: pick_seed(rng), entry: Entry::Sync { workers: Some(1) }, rayon_threads: 1, fresh: false, history: vec![], faults: vec![] });
            }
            case.searches.push(SearchSpec { fen: pos.fen(), depth, seed: pick_seed(rng), entry, rayon_threads: rt, fresh: false, history: vec![], faults });
            // the returned artifact seeds one more search
            let q = if rng.chance(500) { pos.clone() } else { pick_position(ctx, rng) };
            case.searches.push(SearchSpec { fen: q.fen(), depth: Some(2), seed: pick_seed(rng), entry: Entry::Sync { workers: Some(1) }, rayon_threads: 1, fresh: false, history: vec![], faults: vec![] });
        }
        "C06" if rng.chance(100) => {
            // mates in one by a special kind of move (double check, discovered check, promotion,
            // pawn move, capture): the leaf-level mate detection sees each kind differently
            case.dims = *rng.pick(&[(8usize, 1024usize), (8, 64)]);
            let w = *rng.pick(&[1usize, 1, 2, 4]);
            let (entry, rt) = if rng.chance(600) { (Entry::Sync { workers: Some(w) }, w) } else { (Entry::Public, w) };
            let (fen, depth) = if rng.chance(350) {
                // mate in three plies that starts with an under-promotion
                (rng.pick(corpus::UNDERPROMOTION_MATES).0, 3 + rng.below(3) as u32)
            } else {
                (rng.pick(corpus::SPECIAL_MATES).1, 1 + rng.below(3) as u32)
            };
            case.searches.push(SearchSpec { fen: fen.to_string(), depth: Some(depth), seed: pick_seed(rng), entry, rayon_threads: rt, fresh: true, history: vec![], faults: vec![] });
        }
        "C06" => {
            case.dims = *rng.pick(&[(8usize, 1024usize), (8, 64)]);
            let kind = rng.below(100);
            let (pos, n) = if kind < 65 {
                let n = if thorough { *rng.pick(&[1u32, 3, 3, 5, 5, 5, 7]) } else { *rng.pick(&[1u32, 3, 3, 5, 5]) };
                (corpus::tb_win_in(rng, &ctx.tb, n), Some(n))
            } else if kind < 80 {
                // not won: only soundness applies
                let mut p = corpus::random_tb_pos(rng);
                while p.legal_moves().is_empty() || matches!(ctx.tb.probe(&p), Some(Val::Win(n)) if n <= 7) {
                    p = corpus::random_tb_pos(rng);
                }
                (p, None)
            } else {
                // heavy material: solver-decided short mates outside the tablebases
                let empty = HashSet::new();
                let mut found = None;
                for _ in 0..40 {
                    let p = corpus::random_heavy(rng);
                    if let Ok(Some(n)) = solve::mate_distance(&p, 5, &empty, 400_000) {
                        found = Some((p, n));
                        break;
                    }
                }
                match found {
                    Some((p, n)) => (p, Some(n)),
                    None => (corpus::tb_win_in(rng, &ctx.tb, 3), Some(3)),
                }
            };
            // the half-move clock is part of the position: a mate delivered by the very move
            // that completes the hundredth half-move is still a mate (no clock beyond that)
            let mut pos = pos;
            if let Some(n) = n {
                match rng.below(12) {
                    0 => pos.halfmove = 100 - n.min(100),
                    1 => pos.halfmove = rng.below((101 - n.min(100)) as u64) as u32,
                    _ => {}
                }
                pos.fullmove = pos.fullmove.max(pos.halfmove / 2 + 1);
            }
            let mut depth = match n {
                Some(n) => n + rng.below(3) as u32,
                None => 3 + rng.below(3) as u32,
            };
            let (entry, rt) = if rng.chance(700) {
                let w = *rng.pick(WORKERS);
                (Entry::Sync { workers: Some(w) }, w)
            } else {
                (Entry::Public, *rng.pick(&[1usize, 2, 4, 8, 16, 32]))
            };
            // keep the total work affordable: deep searches only with few workers, and
            // outside the 3-man tablebases (more material) one ply less
            let heavy_material = pos.piece_count() > 3;
            let max_d = match (rt >= 8, heavy_material) {
                (true, true) => 4,
                (true, false) => 5,
                (false, true) => 5,
                (false, false) => if thorough && rt <= 2 { 9 } else { 7 },
            };
            depth = depth.min(max_d).max(1);
            case.searches.push(SearchSpec { fen: pos.fen(), depth: Some(depth), seed: pick_seed(rng), entry, rayon_threads: rt, fresh: true, history: vec![], faults: vec![] });
        }
        "C17" if rng.chance(80) => {
            // not over-applied: recording positions that cannot occur in the search (siblings
            // that differ in castling rights / en-passant square, unrelated positions) must not
            // change a single event of a single-worker search
            case.dims = (8, 1024);
            let base = if rng.chance(700) {
                // a position that has lost castling rights it could physically still have
                let full = Pos::from_fen(rng.pick(corpus::RIGHTS)).unwrap();
                let fewer: Vec<Pos> = corpus::siblings(&full).into_iter().filter(|q| q.castling & !full.castling == 0 && q.castling != full.castling && q.ep == full.ep).collect();
                if fewer.is_empty() {
                    full
                } else {
                    rng.pick(&fewer).clone()
                }
            } else {
                corpus::tb_win_in(rng, &ctx.tb, 3)
            };
            let mut irrelevant: Vec<String> = Vec::new();
            // the position itself and positions a move or two on, each with a castling right
            // *more* than it has (or an en-passant square it does not have): rights are never
            // regained, so none of these can occur in the search
            let mut around = vec![base.clone()];
            for _ in 0..3 {
                let k = 1 + rng.below(2) as u32;
                around.push(corpus::random_play(rng, &base, k).0);
            }
            for q in &around {
                for sib in corpus::siblings(q) {
                    if sib.castling & !q.castling != 0 && sib.ep == q.ep && irrelevant.len() < 6 {
                        irrelevant.push(sib.fen());
                    }
                }
            }
            // positions with more men than `base` cannot be reached either
            if base.piece_count() < 6 {
                irrelevant.push(Pos::from_fen(rng.pick(corpus::NORMAL)).unwrap().fen());
            }
            let depth = 1 + rng.below(4) as u32;
            let seed = rng.next();
            case.searches.push(SearchSpec { fen: base.fen(), depth: Some(depth), seed, entry: Entry::Sync { workers: Some(1) }, rayon_threads: 1, fresh: true, history: vec![], faults: vec![] });
            case.searches.push(SearchSpec { fen: base.fen(), depth: Some(depth), seed, entry: Entry::Sync { workers: Some(1) }, rayon_threads: 1, fresh: true, history: irrelevant, faults: vec![] });
        }
        "C17" if rng.chance(180) => {
            // positions outside the tablebases whose mate-keeping first move is a pawn move or
            // a capture: the recorded successor is entered by an irreversible move
            case.dims = *rng.pick(&[(8usize, 64usize), (8, 1024)]);
            let empty: HashSet<String> = HashSet::new();
            let (fen, mv) = *rng.pick(corpus::IRREVERSIBLE_MATES);
            let pos = Pos::from_fen(fen).unwrap();
            let m = Mv::parse(mv).unwrap();
            let succ = pos.make(m);
            let mut drawn: HashSet<String> = HashSet::new();
            drawn.insert(solve::key(&succ));
            drawn.insert(solve::key(&pos));
            let nmod = solve::mate_distance(&pos, 5, &drawn, 400_000).ok().flatten();
            let depth = match nmod {
                Some(n) => (n + rng.below(2) as u32).min(5),
                None => 3,
            };
            let _ = empty;
            let w = *rng.pick(&[1usize, 1, 2, 4]);
            let organic = rng.chance(500) && !succ.legal_moves().is_empty() || rng.chance(300);
            if organic {
                let w0 = *rng.pick(&[1usize, 2]);
                case.searches.push(SearchSpec { fen: succ.fen(), depth: Some(1 + rng.below(3) as u32), seed: pick_seed(rng), entry: Entry::Sync { workers: Some(w0) }, rayon_threads: w0, fresh: true, history: vec![], faults: vec![] });
            }
            let history = if organic { vec![] } else { vec![succ.fen()] };
            case.searches.push(SearchSpec { fen: pos.fen(), depth: Some(depth), seed: pick_seed(rng), entry: Entry::Sync { workers: Some(w) }, rayon_threads: w, fresh: !organic, history, faults: vec![] });
        }
        "C17" => {
            case.dims = *rng.pick(&[(8usize, 64usize), (8, 1024)]);
            // a won tablebase position with >= 2 mate-preserving first moves
            let (pos, keepers) = loop {
                let n = if thorough { *rng.pick(&[3u32, 3, 5, 5, 1, 7]) } else { *rng.pick(&[3u32, 3, 5, 5, 1]) };
                let p = corpus::tb_win_in(rng, &ctx.tb, n);
                let keepers: Vec<Mv> = p.legal_moves().into_iter().filter(|m| ctx.tb.move_keeps_win(&p, *m) == Some(true)).collect();
                if keepers.len() >= 2 {
                    break (p, keepers);
                }
            };
            let dtm_of = |m: &Mv| match ctx.tb.probe(&pos.make(*m)) {
                Some(Val::Loss(n)) => n,
                _ => 999,
            };
            let mut sorted = keepers.clone();
            sorted.sort_by_key(|m| (dtm_of(m), *m));
            let nrec = 1 + rng.below(3.min(sorted.len() as u64 - 1).max(1)) as usize;
            let mut recorded: Vec<Mv> = Vec::new();
            // always consider the quickest mating move first, then random keepers
            if rng.chance(750) {
                recorded.push(sorted[0]);
            }
            while recorded.len() < nrec {
                let m = *rng.pick(&sorted);
                if !recorded.contains(&m) {
                    recorded.push(m);
                }
                if recorded.len() >= sorted.len() - 1 {
                    break;
                }
            }
            let mut history: Vec<String> = recorded.iter().map(|m| pos.make(*m).fen()).collect();
            // a long game: more than a hundred other positions (with more material, so never
            // reachable from here) were recorded after these, and some of these once more
            let long_game = rng.chance(120);
            if long_game {
                let again: Vec<String> = history.clone();
                for _ in 0..(101 + rng.below(60)) {
                    let f = match rng.below(3) {
                        0 => corpus::random_heavy(rng),
                        1 => corpus::random_pawn_endgame(rng),
                        _ => corpus::random_rich(rng),
                    };
                    history.push(f.fen());
                }
                if rng.chance(500) {
                    history.extend(again);
                }
            }
            let mut drawn: HashSet<String> = recorded.iter().map(|m| solve::key(&pos.make(*m))).collect();
            drawn.insert(solve::key(&pos));
            let maxd = if thorough { 9 } else { 7 };
            let nmod = modified_mate_distance(ctx, &pos, maxd, &drawn);
            let depth = match nmod {
                Some(n) => (n + rng.below(3) as u32).min(maxd),
                None => 5,
            };
            let w = *rng.pick(&[1usize, 2, 3, 4, 8]);
            let (entry, rt) = if rng.chance(800) { (Entry::Sync { workers: Some(w) }, w) } else { (Entry::Public, w) };
            // Half of the cases let the positions enter the history the way a game does: each
            // is searched as a root on the same artifact first (so the table also holds
            // entries for them), instead of being written into the history through the hook.
            let organic = !long_game && rng.chance(500);
            if organic {
                let mut first = true;
                // a game can come back to a position: sometimes the position itself is searched
                // first (with several workers), then its successors, then the position again
                if rng.chance(350) {
                    let w1 = *rng.pick(&[2usize, 3, 4, 8]);
                    case.searches.push(SearchSpec {
                        fen: pos.fen(),
                        depth: Some(depth),
                        seed: rng.next(),
                        entry: Entry::Sync { workers: Some(w1) },
                        rayon_threads: w1,
                        fresh: true,
                        history: vec![],
                        faults: vec![],
                    });
                    first = false;
                }
                for h in history.drain(..) {
                    let w0 = *rng.pick(&[1usize, 1, 2, 4]);
                    case.searches.push(SearchSpec {
                        fen: h,
                        depth: Some(2 + rng.below(4) as u32),
                        seed: rng.next(),
                        entry: Entry::Sync { workers: Some(w0) },
                        rayon_threads: w0,
                        fresh: first,
                        history: vec![],
                        faults: vec![],
                    });
                    first = false;
                }
            }
            case.searches.push(SearchSpec { fen: pos.fen(), depth: Some(depth), seed: pick_seed(rng), entry, rayon_threads: rt, fresh: !organic, history, faults: vec![] });
        }
        "C19" => {
            case.dims = *rng.pick(&[(8usize, 64usize), (8, 1024), (2, 8)]);
            let p = pick_position(ctx, rng);
            let (entry, depth, rt) = if rng.chance(500) {
                (Entry::Public, 1 + rng.below(3) as u32, *rng.pick(&[1usize, 2, 4, 8]))
            } else {
                (Entry::Sync { workers: Some(1) }, 1 + rng.below(if thorough { 5 } else { 4 }) as u32, 1)
            };
            case.repeat = 3;
            // a caller that lets go of the control handle must not change what is reported
            let mut faults = Vec::new();
            if entry == Entry::Public && rng.chance(300) {
                faults.push(Fault { kind: FaultKind::DropSenderAtStep, at: rng.below(12), times: 1 });
            }
            case.searches.push(SearchSpec { fen: p.fen(), depth: Some(depth), seed: pick_seed(rng), entry, rayon_threads: rt, fresh: true, history: vec![], faults });
        }
        _ => unreachable!(),
    }
    if prop == "C17" && case.searches.iter().any(|s| s.depth.map(|d| d > 7).unwrap_or(false)) {
        // the deepest searches only with one or two workers and a table that holds their tree
        // (total work stays affordable)
        case.dims = (16, 4096);
        case.node_cap = 6_000_000;
        for s in case.searches.iter_mut() {
            match &mut s.entry {
                Entry::Sync { workers: Some(w) } if *w > 2 => {
                    *w = 2;
                    s.rayon_threads = 2;
                }
                Entry::Public if s.rayon_threads > 2 => s.rayon_threads = 2,
                _ => {}
            }
        }
    }
    case
}

pub fn shrink(case: &SearchCase) -> Vec<SearchCase> {
    let mut out = Vec::new();
    let n = case.searches.len();
    // drop an earlier search
    if n > 1 {
        for i in 0..n {
            let mut c = case.clone();
            c.searches.remove(i);
            out.push(c);
        }
    }
    for i in 0..n {
        let s = &case.searches[i];
        // drop a fault
        for j in 0..s.faults.len() {
            let mut c = case.clone();
            c.searches[i].faults.remove(j);
            out.push(c);
        }
        for j in 0..s.faults.len() {
            if s.faults[j].times > 1 {
                let mut c = case.clone();
                c.searches[i].faults[j].times = 1;
                out.push(c);
            }
        }
        // fewer workers
        match &s.entry {
            Entry::Sync { workers: Some(w) } if *w > 1 => {
                for nw in [1usize, w / 2] {
                    if nw >= 1 && nw < *w {
                        let mut c = case.clone();
                        c.searches[i].entry = Entry::Sync { workers: Some(nw) };
                        c.searches[i].rayon_threads = nw;
                        out.push(c);
                    }
                }
            }
            Entry::Public if s.rayon_threads > 1 => {
                let mut c = case.clone();
                c.searches[i].rayon_threads = 1;
                out.push(c);
            }
            _ => {}
        }
        // lower depth
        if let Some(d) = s.depth {
            if d > 1 {
                let mut c = case.clone();
                c.searches[i].depth = Some(d - 1);
                out.push(c);
            }
        }
        for j in 0..s.history.len() {
            let mut c = case.clone();
            c.searches[i].history.remove(j);
            out.push(c);
        }
    }
    if case.dims != (8, 64) {
        let mut c = case.clone();
        c.dims = (8, 64);
        out.push(c);
    }
    if case.repeat > 2 {
        let mut c = case.clone();
        c.repeat = 2;
        out.push(c);
    }
    out
}

pub fn nontrivial(case: &SearchCase) -> bool {
    case.searches.iter().any(|s| !s.faults.is_empty() || s.rayon_threads > 1 || matches!(s.entry, Entry::Public)) || case.searches.len() > 1 || case.repeat > 1
}
