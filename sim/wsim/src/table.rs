//! C15 — the transposition table as a bounded map, driven directly through hook H4.

use std::cell::Cell;
use std::collections::{BTreeMap, BTreeSet, HashMap, HashSet};
use std::sync::Arc;

use serde::{Deserialize, Serialize};
use weechess_core::{Color, Move, Piece, PieceIndex, Square};
use weechess_engine::searcher::verif::{EntryView, SlotView, Table};
use weechess_simrt::world::Run;

use crate::exec::{self, Outcome};
use crate::report::*;
use crate::rng::Rng64;
use crate::sched::SchedSpec;

#[derive(Clone, Debug, Serialize, Deserialize, PartialEq)]
pub enum TOp {
    Ins {
        key: u64,
        id: u32,
        mv: u8,
        /// which field(s) of the base value are shifted (0 = none), see `value_for`
        #[serde(default)]
        var: u8,
    },
    /// the access layer's conditional store: takes effect only if the key is not resident
    InsAbsent {
        key: u64,
        id: u32,
        mv: u8,
        #[serde(default)]
        var: u8,
    },
    Find { key: u64 },
    Entries,
}

impl TOp {
    /// (key, id, mv, var, conditional) of either kind of store
    fn store(&self) -> Option<(u64, u32, u8, u8, bool)> {
        match self {
            TOp::Ins { key, id, mv, var } => Some((*key, *id, *mv, *var, false)),
            TOp::InsAbsent { key, id, mv, var } => Some((*key, *id, *mv, *var, true)),
            _ => None,
        }
    }
}

#[derive(Clone, Debug, Serialize, Deserialize, PartialEq)]
pub struct TableCase {
    pub tables: usize,
    pub buckets: usize,
    /// executed sequentially by the world before the client tasks start
    pub prefill: Vec<TOp>,
    pub threads: Vec<Vec<TOp>>,
    /// run the linearizability search on per-bucket histories
    pub linearize: bool,
    /// build the sub-tables from this byte budget each (the shipped sizing path) instead of
    /// from a bucket count; `buckets` then holds the bucket count the budget must yield
    #[serde(default)]
    pub bytes_per_table: Option<usize>,
}

thread_local! {
    static SEQ: Cell<u64> = const { Cell::new(0) };
}

fn seq() -> u64 {
    SEQ.with(|s| {
        let v = s.get() + 1;
        s.set(v);
        v
    })
}

#[derive(Clone, Debug)]
enum Res {
    Unit,
    Found(Option<EntryView>),
    Count(usize),
}

#[derive(Clone, Debug)]
struct Rec {
    thread: usize,
    op: TOp,
    inv: u64,
    ret: u64,
    res: Res,
}

fn value_for(key: u64, id: u32, mv: u8, var: u8) -> EntryView {
    let from = Square::try_from(mv % 64).unwrap_or(Square::A1);
    let to = Square::try_from((mv / 4 + 8) % 64).unwrap_or(Square::A2);
    let mut e = EntryView {
        kind: (id % 3) as u8,
        performed_move: Move::by_moving(PieceIndex::new(Color::White, Piece::Pawn), from, to),
        depth: id as usize,
        // the remaining depth (max_depth - depth) varies from insert to insert, also under one key
        max_depth: id as usize + ((id as u64).wrapping_mul(0x9e37_79b9).wrapping_add(key) >> 3) as usize % 7,
        evaluation: id as i32,
    };
    // near-twins: values that differ from the base value of (id, mv) in as little as possible
    match var {
        0 => {}
        1 => {
            // same remaining depth, reached one ply later
            e.depth += 1;
            e.max_depth += 1;
        }
        2 => e.max_depth += 1,
        3 => e.kind = (e.kind + 1) % 3,
        4 => {
            e.depth += 3;
            e.max_depth += 3;
        }
        5 => {
            // depth beyond max_depth (a remaining depth that saturates at zero), twice
            e.depth = e.max_depth + 1;
        }
        6 => {
            e.depth = e.max_depth + 2;
        }
        _ => e.evaluation = -e.evaluation,
    }
    e
}

/// Identity of a stored value: its whole content (kind, move, both depths, evaluation). Two
/// inserts of a case never carry the same content: ids are unique except for "twins", which
/// share an id and differ in the move or in exactly one other field.
fn uid_of(e: &EntryView) -> i64 {
    let from: u8 = e.performed_move.origin().into();
    let to: u8 = e.performed_move.destination().into();
    let mut h = FNV_INIT;
    fnv_str(&mut h, &format!("{}|{}|{}|{}|{}|{}|{:?}", e.kind, from, to, e.depth, e.max_depth, e.evaluation, e.performed_move.promotion()));
    (h >> 1) as i64
}

fn uid(key: u64, id: u32, mv: u8, var: u8) -> i64 {
    uid_of(&value_for(key, id, mv, var))
}

fn show(e: &EntryView) -> String {
    let from: u8 = e.performed_move.origin().into();
    let to: u8 = e.performed_move.destination().into();
    format!("(kind {} move {}->{} depth {}/{} eval {})", e.kind, from, to, e.depth, e.max_depth, e.evaluation)
}

fn do_op(table: &Table, thread: usize, op: &TOp) -> Rec {
    let inv = seq();
    let res = match op {
        TOp::Ins { key, id, mv, var } => {
            table.insert(*key, value_for(*key, *id, *mv, *var));
            Res::Unit
        }
        TOp::InsAbsent { key, id, mv, var } => {
            table.insert_if_absent(*key, value_for(*key, *id, *mv, *var));
            Res::Unit
        }
        TOp::Find { key } => Res::Found(table.find(*key)),
        TOp::Entries => Res::Count(table.entries()),
    };
    let ret = seq();
    Rec { thread, op: op.clone(), inv, ret, res }
}

struct Observed {
    recs: Vec<Rec>,
    /// after every sequential op (prefill and single-thread mode): dump + entries()
    seq_dumps: Vec<(usize, Vec<SlotView>, usize)>,
    final_dump: Vec<SlotView>,
    final_entries: usize,
    final_saturation: f32,
    saturation_empty: f32,
    max_entries: usize,
    routes: HashMap<u64, (usize, usize)>,
    route_unstable: Option<u64>,
}

fn build(case_tables: usize, case_buckets: usize, bytes: Option<usize>) -> Table {
    match bytes {
        Some(b) => Table::with_memory(case_tables, b),
        None => Table::new(case_tables, case_buckets),
    }
}

fn learn_route(tables: usize, buckets: usize, bytes: Option<usize>, key: u64) -> Option<(usize, usize)> {
    let t = build(tables, buckets, bytes);
    t.insert(key, value_for(key, 0, 0, 0));
    let d = t.dump();
    if d.len() != 1 {
        return None;
    }
    Some((d[0].table, d[0].bucket))
}

fn keys_of(case: &TableCase) -> BTreeSet<u64> {
    let mut ks = BTreeSet::new();
    for op in case.prefill.iter().chain(case.threads.iter().flatten()) {
        match op {
            TOp::Ins { key, .. } | TOp::InsAbsent { key, .. } | TOp::Find { key } => {
                ks.insert(*key);
            }
            _ => {}
        }
    }
    ks
}

fn world(case: TableCase) -> Observed {
    SEQ.with(|s| s.set(0));
    let mut routes = HashMap::new();
    let mut route_unstable = None;
    for k in keys_of(&case) {
        let a = learn_route(case.tables, case.buckets, case.bytes_per_table, k);
        let b = learn_route(case.tables, case.buckets, case.bytes_per_table, k);
        match (a, b) {
            (Some(a), Some(b)) if a == b => {
                routes.insert(k, a);
            }
            _ => route_unstable = Some(k),
        }
    }
    let table = Arc::new(build(case.tables, case.buckets, case.bytes_per_table));
    let max_entries = table.max_entries();
    let saturation_empty = table.saturation();
    let mut recs = Vec::new();
    let mut seq_dumps = Vec::new();
    for op in &case.prefill {
        let r = do_op(&table, usize::MAX, op);
        recs.push(r);
        seq_dumps.push((recs.len() - 1, table.dump(), table.entries()));
    }
    if case.threads.len() == 1 {
        for op in &case.threads[0] {
            let r = do_op(&table, 0, op);
            recs.push(r);
            seq_dumps.push((recs.len() - 1, table.dump(), table.entries()));
        }
    } else {
        let handles: Vec<_> = case
            .threads
            .iter()
            .cloned()
            .enumerate()
            .map(|(ti, ops)| {
                let table = table.clone();
                shuttle::thread::spawn(move || ops.iter().map(|op| do_op(&table, ti, op)).collect::<Vec<_>>())
            })
            .collect();
        for h in handles {
            recs.extend(h.join().unwrap());
        }
    }
    let final_entries = table.entries();
    let final_saturation = table.saturation();
    let final_dump = table.dump();
    // final sequential reads of every key
    for k in keys_of(&case) {
        let r = do_op(&table, usize::MAX - 1, &TOp::Find { key: k });
        recs.push(r);
    }
    Observed { recs, seq_dumps, final_dump, final_entries, final_saturation, saturation_empty, max_entries, routes, route_unstable }
}

pub fn run(case: &TableCase, spec: &SchedSpec) -> RunReport {
    let c = case.clone();
    let out = exec::execute(spec, Run::new(spec.seed), move || world(c));
    let mut stats = RunStats::default();
    stats.absorb_sched(&out.sched);
    let mut violations = Vec::new();
    let mut harness_error = None;
    let mut digest = FNV_INIT;
    let mut transcript = Vec::new();
    match (&out.outcome, out.value) {
        (Outcome::Completed, Some(obs)) => {
            check(case, &obs, &mut violations, &mut stats);
            for r in &obs.recs {
                let line = format!("t{} [{}..{}] {:?} -> {}", r.thread as isize, r.inv, r.ret, r.op, res_str(&r.res));
                fnv_str(&mut digest, &line);
                transcript.push(line);
            }
            fnv_str(&mut digest, &format!("{}", obs.final_entries));
        }
        (Outcome::Panic { msg, loc }, _) => {
            violations.push(Violation::new(
                "C15",
                "no-panic",
                loc,
                format!("table operation panicked: {} at {}", msg, loc),
            ));
        }
        (Outcome::Deadlock { msg }, _) => {
            // an operation that never returns: every task of the run is blocked inside the table
            violations.push(Violation::new("C15", "operation-returns", "deadlock", format!("table operations block for ever: {}", msg)));
        }
        (o, _) => harness_error = Some(format!("table run ended with {:?}", o)),
    }
    RunReport {
        violations,
        harness_error,
        outcome: out.outcome,
        stats,
        digest,
        trace: out.sched.trace,
        diverged: out.sched.diverged,
        transcript,
    }
}

fn res_str(r: &Res) -> String {
    match r {
        Res::Unit => "()".into(),
        Res::Count(n) => format!("{}", n),
        Res::Found(None) => "None".into(),
        Res::Found(Some(e)) => format!("Some{}", show(e)),
    }
}

fn check(case: &TableCase, obs: &Observed, v: &mut Vec<Violation>, stats: &mut RunStats) {
    // slots per bucket are the implementation's business: learned from the reported capacity
    let nb = case.tables * case.buckets;
    let slots = if nb > 0 && obs.max_entries % nb == 0 && obs.max_entries > 0 { obs.max_entries / nb } else { 0 };
    let cap = obs.max_entries;
    if let Some(bytes) = case.bytes_per_table {
        // a byte budget must be used as fully as whole buckets allow, and never exceeded
        let per = Table::bucket_bytes();
        stats.eval("sizing-from-bytes");
        let want_buckets = bytes / per.max(1);
        if want_buckets != case.buckets || (slots > 0 && (obs.max_entries / slots) != case.tables * want_buckets) {
            v.push(Violation::new("C15", "capacity", "sizing", format!("{} sub-tables of {} bytes each ({} bytes per bucket) report capacity {}", case.tables, bytes, per, obs.max_entries)));
        }
    }
    let sat_want = obs.final_entries as f32 / obs.max_entries.max(1) as f32;
    if (obs.final_saturation - sat_want).abs() > 1e-4 || obs.saturation_empty != 0.0 || !(0.0..=1.0).contains(&obs.final_saturation) {
        v.push(Violation::new("C15", "entry-count", "saturation", format!("saturation() = {} with {} entries of {} (empty table reported {})", obs.final_saturation, obs.final_entries, obs.max_entries, obs.saturation_empty)));
    }
    if slots == 0 {
        v.push(Violation::new("C15", "capacity", "", format!("max_entries() = {} is not a positive multiple of {}x{} buckets", obs.max_entries, case.tables, case.buckets)));
        return;
    }
    if let Some(k) = obs.route_unstable {
        v.push(Violation::new("C15", "route-function", "", format!("key {:#x} alone in a fresh table did not land in one stable slot", k)));
        return;
    }
    // id -> (key, value) of every insert in the case
    let mut by_id: HashMap<i64, (u64, EntryView)> = HashMap::new();
    for op in case.prefill.iter().chain(case.threads.iter().flatten()) {
        if let Some((key, id, mv, var, _)) = op.store() {
            by_id.insert(uid(key, id, mv, var), (key, value_for(key, id, mv, var)));
        }
    }
    // stores of either kind; a conditional store that has returned leaves its key resident
    // (stored now or found resident), but only an unconditional one is certain to have
    // replaced the value
    let inserts: Vec<&Rec> = obs.recs.iter().filter(|r| r.op.store().is_some()).collect();
    let ins_key = |r: &Rec| r.op.store().unwrap().0;
    let ins_id = |r: &Rec| {
        let (key, id, mv, var, _) = r.op.store().unwrap();
        uid(key, id, mv, var)
    };
    let unconditional = |r: &Rec| !r.op.store().unwrap().4;
    let route = |k: u64| obs.routes.get(&k).copied();

    // distinct keys routed to `b` (other than `k`) with an insert invoked before `t`
    let others_before = |b: (usize, usize), k: u64, t: u64| -> usize {
        let mut s = HashSet::new();
        for r in &inserts {
            let kk = ins_key(r);
            if kk != k && r.inv < t && route(kk) == Some(b) {
                s.insert(kk);
            }
        }
        s.len()
    };

    let mut overlap = false;
    for (i, a) in obs.recs.iter().enumerate() {
        for b in obs.recs.iter().skip(i + 1) {
            if a.thread != b.thread && a.inv < b.ret && b.inv < a.ret {
                overlap = true;
            }
        }
    }
    if overlap {
        stats.probe("concurrent-overlapping-ops");
    }

    for r in &obs.recs {
        match (&r.op, &r.res) {
            (TOp::Find { key }, Res::Found(Some(e))) => {
                stats.eval("find-hit");
                let id = uid_of(e);
                match by_id.get(&id) {
                    Some((k2, val)) if k2 == key && val == e => {
                        // freshness: the insert must have been invoked before the find returned
                        // and must not be superseded by an insert that ran wholly in between
                        let src: Vec<&&Rec> = inserts.iter().filter(|i| ins_id(i) == id).collect();
                        let src = src[0];
                        if src.inv > r.ret {
                            v.push(Violation::new("C15", "read-from-future", "", format!("find({:#x}) returned id {} whose insert had not started", key, id)));
                        }
                        let superseded = inserts.iter().any(|i2| {
                            unconditional(i2) && ins_key(i2) == *key && ins_id(i2) != id && i2.inv > src.ret && i2.ret < r.inv
                        });
                        if superseded {
                            v.push(Violation::new(
                                "C15",
                                "stale-read",
                                "",
                                format!("find({:#x}) returned id {} although a later insert under the same key had completed before the find began", key, id),
                            ));
                        }
                    }
                    Some((k2, _)) if k2 != key => {
                        v.push(Violation::new(
                            "C15",
                            "foreign-entry",
                            "",
                            format!("find({:#x}) returned the entry stored under key {:#x} (id {})", key, k2, id),
                        ));
                    }
                    Some((_, val)) => {
                        v.push(Violation::new("C15", "corrupt-entry", "", format!("find({:#x}) returned {:?}, stored was {:?}", key, e, val)));
                    }
                    None => {
                        // content that no insert of this case carried: a mixture of two stored values?
                        let near = by_id.values().any(|(k2, val)| k2 == key && val.evaluation == e.evaluation);
                        if near {
                            v.push(Violation::new("C15", "corrupt-entry", "", format!("find({:#x}) returned {}, which no insert stored (inserts under that key with the same evaluation exist)", key, show(e))));
                        } else {
                            v.push(Violation::new("C15", "phantom-entry", "", format!("find({:#x}) returned an entry that was never inserted: {:?}", key, e)));
                        }
                    }
                }
            }
            (TOp::Find { key }, Res::Found(None)) => {
                stats.eval("find-miss");
                // some insert under this key completed before the find began?
                let had = inserts.iter().any(|i| ins_key(i) == *key && i.ret < r.inv);
                if had {
                    let ok = match route(*key) {
                        Some(b) => others_before(b, *key, r.ret) >= slots,
                        None => false,
                    };
                    if ok {
                        stats.probe("miss-after-possible-displacement");
                    } else {
                        v.push(Violation::new(
                            "C15",
                            "lost-entry",
                            "",
                            format!(
                                "find({:#x}) returned nothing although an insert under that key had completed and fewer than 8 other keys were ever inserted into its bucket",
                                key
                            ),
                        ));
                    }
                }
            }
            (TOp::Entries, Res::Count(n)) => {
                stats.eval("entries");
                let occ = |t: u64, use_ret: bool| -> usize {
                    let mut per: BTreeMap<(usize, usize), HashSet<u64>> = BTreeMap::new();
                    for i in &inserts {
                        let stamp = if use_ret { i.ret } else { i.inv };
                        if stamp < t {
                            if let Some(b) = route(ins_key(i)) {
                                per.entry(b).or_default().insert(ins_key(i));
                            }
                        }
                    }
                    per.values().map(|s| s.len().min(slots)).sum()
                };
                let lo = occ(r.inv, true);
                let hi = occ(r.ret, false);
                if *n < lo || *n > hi || *n > cap {
                    v.push(Violation::new(
                        "C15",
                        "entry-count",
                        "",
                        format!("entries() = {} outside [{}, {}] (capacity {})", n, lo, hi, cap),
                    ));
                }
            }
            _ => {}
        }
    }

    // quiescent state: walk the storage
    let occupied = obs.final_dump.len();
    stats.eval("final-dump");
    if occupied != obs.final_entries {
        v.push(Violation::new("C15", "entry-count", "quiescent", format!("entries() = {} but {} slots are occupied", obs.final_entries, occupied)));
    }
    if obs.final_entries > cap {
        v.push(Violation::new("C15", "capacity", "exceeded", format!("entries() = {} > capacity {}", obs.final_entries, cap)));
    }
    let mut seen = HashSet::new();
    for s in &obs.final_dump {
        if !seen.insert(s.key) {
            v.push(Violation::new("C15", "duplicate-key", "", format!("key {:#x} occupies two slots", s.key)));
        }
        if let Some(b) = route(s.key) {
            if b != (s.table, s.bucket) {
                v.push(Violation::new("C15", "route-function", "moved", format!("key {:#x} found in {:?}, alone it routes to {:?}", s.key, (s.table, s.bucket), b)));
            }
        }
        let id = uid_of(&s.entry);
        match by_id.get(&id) {
            Some((k, val)) if *k == s.key && *val == s.entry => {
                let src = inserts.iter().find(|i| ins_id(i) == id).unwrap();
                let superseded = inserts.iter().any(|i2| unconditional(i2) && ins_key(i2) == s.key && ins_id(i2) != id && i2.inv > src.ret);
                if superseded {
                    v.push(Violation::new("C15", "stale-read", "quiescent", format!("slot of key {:#x} holds id {} although a later insert completed", s.key, id)));
                }
            }
            _ => v.push(Violation::new("C15", "foreign-entry", "quiescent", format!("slot holds key {:#x} with a value stored under another key or never stored (id {})", s.key, id))),
        }
    }
    let mut per_bucket: BTreeMap<(usize, usize), HashSet<u64>> = BTreeMap::new();
    for i in &inserts {
        if let Some(b) = route(ins_key(i)) {
            per_bucket.entry(b).or_default().insert(ins_key(i));
        }
    }
    let expect_occ: usize = per_bucket.values().map(|s| s.len().min(slots)).sum();
    if occupied != expect_occ {
        v.push(Violation::new("C15", "entry-count", "occupancy", format!("{} slots occupied, {} expected from the distinct keys inserted per bucket", occupied, expect_occ)));
    }
    if per_bucket.values().any(|s| s.len() > slots) {
        stats.probe("bucket-overflow");
    }
    for (b, keys) in &per_bucket {
        if keys.len() <= slots {
            for k in keys {
                if !seen.contains(k) {
                    v.push(Violation::new("C15", "lost-entry", "quiescent", format!("key {:#x} is gone from bucket {:?} that never held more than {} keys", k, b, keys.len())));
                }
            }
        }
    }

    // exact sequential model, checked after every sequential operation
    if !obs.seq_dumps.is_empty() {
        let mut model: BTreeMap<(usize, usize), Vec<(u64, EntryView)>> = BTreeMap::new();
        for (ri, dump, entries) in &obs.seq_dumps {
            let r = &obs.recs[*ri];
            stats.eval("sequential-step");
            match &r.op {
                TOp::Ins { .. } | TOp::InsAbsent { .. } => {
                    let (key, id, mv, var, conditional) = r.op.store().unwrap();
                    let key = &key;
                    let val = value_for(*key, id, mv, var);
                    let Some(b) = route(*key) else { continue };
                    let bucket = model.entry(b).or_default();
                    if let Some(e) = bucket.iter_mut().find(|e| e.0 == *key) {
                        if conditional {
                            stats.probe("conditional-store-found-resident");
                        } else {
                            e.1 = val;
                            stats.probe("same-key-overwrite");
                        }
                    } else if bucket.len() < slots {
                        bucket.push((*key, val));
                    } else {
                        // some victim must have gone: read it off the storage
                        let now: HashSet<u64> = dump.iter().filter(|s| (s.table, s.bucket) == b).map(|s| s.key).collect();
                        let gone: Vec<u64> = bucket.iter().map(|e| e.0).filter(|k| !now.contains(k)).collect();
                        if gone.len() != 1 {
                            v.push(Violation::new("C15", "displacement", "", format!("insert of new key {:#x} into a full bucket removed {} keys", key, gone.len())));
                        }
                        bucket.retain(|e| !gone.contains(&e.0));
                        bucket.push((*key, val));
                        stats.probe("displacement");
                    }
                }
                TOp::Find { key } => {
                    let want = route(*key).and_then(|b| model.get(&b)).and_then(|bk| bk.iter().find(|e| e.0 == *key)).map(|e| e.1);
                    if let Res::Found(got) = &r.res {
                        if *got != want {
                            v.push(Violation::new("C15", "sequential-model", "find", format!("find({:#x}) = {}, model says {}", key, got.map(|e| show(&e)).unwrap_or("nothing".into()), want.map(|e| show(&e)).unwrap_or("nothing".into()))));
                        }
                    }
                }
                TOp::Entries => {}
            }
            let mut m: Vec<(usize, usize, u64, i64)> = model.iter().flat_map(|(b, es)| es.iter().map(move |e| (b.0, b.1, e.0, uid_of(&e.1)))).collect();
            let mut d: Vec<(usize, usize, u64, i64)> = dump.iter().map(|s| (s.table, s.bucket, s.key, uid_of(&s.entry))).collect();
            m.sort();
            d.sort();
            if m != d {
                v.push(Violation::new("C15", "sequential-model", "storage", format!("after {:?}: storage {:?} differs from model {:?}", r.op, d, m)));
                return;
            }
            if *entries != m.len() {
                v.push(Violation::new("C15", "entry-count", "sequential", format!("after {:?}: entries() = {}, occupied slots = {}", r.op, entries, m.len())));
            }
        }
    }

    if case.linearize && v.is_empty() {
        // per-bucket linearizability (locality: each bucket is an independent object)
        let mut per: BTreeMap<(usize, usize), Vec<&Rec>> = BTreeMap::new();
        for r in &obs.recs {
            let k = match r.op {
                TOp::Ins { key, .. } | TOp::InsAbsent { key, .. } | TOp::Find { key } => key,
                TOp::Entries => continue,
            };
            if let Some(b) = route(k) {
                per.entry(b).or_default().push(r);
            }
        }
        for (b, hist) in per {
            if hist.len() > 24 {
                stats.probe("linearize-skipped-too-long");
                continue;
            }
            stats.eval("linearize-bucket");
            if !linearizable(&hist, slots) {
                v.push(Violation::new("C15", "linearizability", "", format!("history of bucket {:?} ({} ops) has no linearization against the bounded-map model", b, hist.len())));
            }
        }
    }
}

/// WGL-style search: is there a total order of the operations, consistent with real-time
/// order, under which a bucket of 8 slots (overwrite same key, fill empty slot, else
/// displace *some* resident) explains every result?
fn linearizable(hist: &[&Rec], slots: usize) -> bool {
    let n = hist.len();
    let mut memo: HashSet<(u32, Vec<(u64, i64)>)> = HashSet::new();
    fn go(hist: &[&Rec], slots: usize, done: u32, state: &mut Vec<(u64, i64)>, memo: &mut HashSet<(u32, Vec<(u64, i64)>)>) -> bool {
        let n = hist.len();
        if done == (1u32 << n) - 1 {
            return true;
        }
        let mut key_state = state.clone();
        key_state.sort();
        if !memo.insert((done, key_state)) {
            return false;
        }
        // earliest return among pending ops bounds which ops may go first
        let min_ret = (0..n).filter(|i| done & (1 << i) == 0).map(|i| hist[i].ret).min().unwrap();
        for i in 0..n {
            if done & (1 << i) != 0 || hist[i].inv > min_ret {
                continue;
            }
            let r = hist[i];
            match (&r.op, &r.res) {
                (TOp::Find { key }, Res::Found(got)) => {
                    let have = state.iter().find(|e| e.0 == *key).map(|e| e.1);
                    if have == got.map(|e| uid_of(&e)) && go(hist, slots, done | (1 << i), state, memo) {
                        return true;
                    }
                }
                (TOp::InsAbsent { key, .. }, _) if state.iter().any(|e| e.0 == *key) => {
                    // resident: the conditional store changes nothing
                    if go(hist, slots, done | (1 << i), state, memo) {
                        return true;
                    }
                }
                (TOp::Ins { key, id, mv, var }, _) | (TOp::InsAbsent { key, id, mv, var }, _) => {
                    let val = uid(*key, *id, *mv, *var);
                    if let Some(pos) = state.iter().position(|e| e.0 == *key) {
                        let old = state[pos].1;
                        state[pos].1 = val;
                        if go(hist, slots, done | (1 << i), state, memo) {
                            return true;
                        }
                        state[pos].1 = old;
                    } else if state.len() < slots {
                        state.push((*key, val));
                        if go(hist, slots, done | (1 << i), state, memo) {
                            return true;
                        }
                        state.pop();
                    } else {
                        for victim in 0..slots {
                            let old = state[victim];
                            state[victim] = (*key, val);
                            if go(hist, slots, done | (1 << i), state, memo) {
                                return true;
                            }
                            state[victim] = old;
                        }
                    }
                }
                _ => {}
            }
        }
        false
    }
    if n > 30 {
        return true;
    }
    let mut state = Vec::new();
    go(hist, slots, 0, &mut state, &mut memo)
}

// ------------------------------------------------------------------ generation

pub fn generate(rng: &mut Rng64, thorough: bool) -> TableCase {
    let dims = [(1usize, 1usize), (1, 2), (2, 1), (3, 2), (8, 4), (2, 3), (1, 1), (4, 1)];
    let (tables, buckets) = *rng.pick(&dims);
    let nthreads = *rng.pick(&[1usize, 1, 2, 2, 2, 3, 3, 4, 4, 6, 8, 16, 32]);
    let l = (tables * buckets) as u64;
    let base = rng.below(l.max(1));
    // a family of keys congruent modulo tables*buckets (same sub-table and same bucket
    // under modulo routing), spread over the whole 64-bit range
    let mut pool: Vec<u64> = Vec::new();
    let fam = 9 + rng.below(3) as usize;
    for i in 0..fam {
        let mult = match i % 3 {
            0 => i as u64,
            1 => (1u64 << 33) / l * 1 + i as u64,
            _ => rng.below(u64::MAX / l / 2),
        };
        pool.push(base.wrapping_add(mult.wrapping_mul(l)));
    }
    let special = [0u64, u64::MAX, 1u64 << 32, (1u64 << 32) + base, base ^ (1 << 40), rng.next(), rng.next()];
    for _ in 0..3 {
        pool.push(*rng.pick(&special));
    }
    pool.sort();
    pool.dedup();
    let mut next_id = 1u32;
    let mut prefill = Vec::new();
    if rng.chance(500) {
        let k = 5 + rng.below(4) as usize;
        for i in 0..k.min(pool.len()) {
            prefill.push(TOp::Ins { key: pool[i], id: next_id, mv: rng.below(256) as u8, var: 0 });
            next_id += 1;
        }
    }
    // one case in three mixes in the conditional store (insert_if_absent)
    let conditional_stores = rng.chance(330);
    let mut threads = Vec::new();
    for _ in 0..nthreads {
        let nops = if nthreads == 1 {
            4 + rng.below(if thorough { 60 } else { 28 })
        } else {
            1 + rng.below(if nthreads > 8 { 3 } else if thorough { 9 } else { 6 })
        };
        let mut ops = Vec::new();
        for _ in 0..nops {
            let r = rng.below(100);
            let key = *rng.pick(&pool);
            if r < 8 && !ops.is_empty() {
                // a twin: the same key stored again with a value that differs from an earlier
                // one of this task only in its move
                let earlier: Vec<(u64, u32, u8, u8)> = ops.iter().filter_map(|o| if let TOp::Ins { key, id, mv, var } = o { Some((*key, *id, *mv, *var)) } else { None }).collect();
                if let Some(&(k, id, mv, var)) = earlier.last() {
                    // ... or only in one other field (near-twin), the move staying the same
                    let (mv2, var2) = if rng.chance(500) { (mv.wrapping_add(1 + rng.below(254) as u8), var) } else { (mv, (var + 1 + rng.below(7) as u8) % 8) };
                    let dup = ops.iter().any(|o| matches!(o, TOp::Ins { id: i2, mv: m2, var: v2, .. } if *i2 == id && *m2 == mv2 && *v2 == var2));
                    if !dup {
                        ops.push(TOp::Ins { key: k, id, mv: mv2, var: var2 });
                    }
                }
            } else if r < 55 {
                if conditional_stores && rng.chance(350) {
                    ops.push(TOp::InsAbsent { key, id: next_id, mv: rng.below(256) as u8, var: 0 });
                } else {
                    ops.push(TOp::Ins { key, id: next_id, mv: rng.below(256) as u8, var: 0 });
                }
                next_id += 1;
            } else if r < 95 {
                ops.push(TOp::Find { key });
            } else {
                ops.push(TOp::Entries);
            }
        }
        threads.push(ops);
    }
    let total_ops: usize = prefill.len() + threads.iter().map(|t| t.len()).sum::<usize>();
    // one case in five sizes its sub-tables from a byte budget: exactly `buckets` buckets plus
    // a remainder smaller than one bucket
    let bytes_per_table = if rng.chance(200) { Some(buckets * Table::bucket_bytes() + rng.below(Table::bucket_bytes() as u64) as usize) } else { None };
    TableCase { tables, buckets, prefill, threads, linearize: thorough || total_ops <= 14, bytes_per_table }
}

pub fn shrink(case: &TableCase) -> Vec<TableCase> {
    let mut out = Vec::new();
    // drop a whole thread
    if case.threads.len() > 1 {
        for i in 0..case.threads.len() {
            let mut c = case.clone();
            c.threads.remove(i);
            out.push(c);
        }
    }
    // drop one op
    for i in 0..case.threads.len() {
        for j in 0..case.threads[i].len() {
            let mut c = case.clone();
            c.threads[i].remove(j);
            if c.threads[i].is_empty() && c.threads.len() > 1 {
                c.threads.remove(i);
            }
            out.push(c);
        }
    }
    for j in 0..case.prefill.len() {
        let mut c = case.clone();
        c.prefill.remove(j);
        out.push(c);
    }
    if case.tables > 1 || case.buckets > 1 {
        let mut c = case.clone();
        c.tables = 1;
        c.buckets = 1;
        out.push(c);
    }
    out
}

pub fn nontrivial(case: &TableCase) -> bool {
    case.threads.len() >= 2 || case.threads.iter().map(|t| t.len()).sum::<usize>() >= 9
}
