//! UCI-level world: the real `Client::exec` command loop fed through the simulated stdin,
//! clock and output log. Decides C07, C14 (UCI-loop half), C18 and the process clause of C04.

use std::collections::BTreeMap;

use refchess::{Mv, Pos};
use serde::{Deserialize, Serialize};
use weechess_simrt::world::{self, Event, Run};

use crate::corpus;
use crate::exec::{self, Outcome};
use crate::report::*;
use crate::rng::Rng64;
use crate::sched::{SchedSpec, Strategy};
use crate::Ctx;

#[derive(Clone, Debug, Serialize, Deserialize, PartialEq)]
pub enum UStep {
    /// deliver a line to the command loop
    Line(String),
    /// the world yields n times (the engine makes that much progress, as scheduled)
    Steps(u32),
    /// advance the simulated clock by this many milliseconds
    Tick(u64),
    /// let the engine run until a further `bestmove` has been printed, the system is
    /// quiescent, or the step budget is used up
    WaitBestmove(u32),
    /// let the engine run until nothing is runnable (or the budget is used up)
    Settle(u32),
    /// jump the clock to the earliest timer deadline (discrete-event step)
    NextTimer,
    /// end of input
    Eof,
    /// fault: stdout is not read from here on (a full pipe); writers block. It is read again at
    /// `ResumeStdout`, or as soon as nothing else in the process can run
    StallStdout,
    ResumeStdout,
    /// let the engine run until nothing is runnable, without draining a stalled stdout
    SettleStalled(u32),
}

#[derive(Clone, Debug, Serialize, Deserialize, PartialEq)]
pub struct UciCase {
    pub prop: String,
    pub dims: (usize, usize),
    pub rayon_threads: usize,
    pub rng_seed: u64,
    /// `thread_rng` returns this constant (C18: makes sessions comparable)
    #[serde(default)]
    pub rng_constant: Option<u64>,
    pub script: Vec<UStep>,
    /// C18: index in `script` where the probe (the part compared with a fresh session) begins
    #[serde(default)]
    pub probe_from: Option<usize>,
    /// lines at these script indices are deliberately malformed (C14)
    #[serde(default)]
    pub malformed: Vec<usize>,
    pub post_cancel_bound: u64,
    pub node_cap: u64,
}

pub struct Session {
    pub log: Vec<Event>,
    pub labels: std::collections::HashMap<usize, String>,
    pub exec_ok: Option<bool>,
    pub sleepers_left: usize,
    pub clock_ns: u64,
    pub nodes: u64,
    pub rng_draws: u64,
    pub post_cancel_max: u64,
    pub cancel_mid_iteration: u64,
    pub sleeps: u64,
    pub max_workers: usize,
}

fn bestmoves_in_log() -> usize {
    world::with(|r| r.log.iter().filter(|e| matches!(e, Event::Out { stream: 0, line, .. } if line.starts_with("bestmove"))).count())
}

fn exec_finished() -> bool {
    world::with(|r| r.log.iter().rev().take(8).any(|e| matches!(e, Event::Note { text } if text.starts_with("exec returned"))))
}

fn session_world(case: UciCase) -> (Option<bool>, usize) {
    world::with(|r| {
        r.dims = case.dims;
        r.rayon_threads = case.rayon_threads;
        r.rng_constant = case.rng_constant;
        r.post_cancel_bound = case.post_cancel_bound;
        r.node_cap = case.node_cap;
    });
    let h = shuttle::thread::spawn(|| {
        world::register_task("exec".to_string());
        let r = weechess_engine::uci::Client::new().exec();
        world::note(format!("exec returned {}", if r.is_ok() { "ok" } else { "err" }));
        r.is_ok()
    });
    // one scheduling step; when everything that is left waits for stdout, the reader drains it
    fn step_q() -> usize {
        let n = world::step();
        if n == 0 && world::resume_stdout() {
            world::note("stdout drained");
            return 1;
        }
        n
    }
    let mut ended = false;
    for (i, st) in case.script.iter().enumerate() {
        match st {
            UStep::Line(l) => {
                world::note(format!("script {} line", i));
                world::push_line(Some(l.clone()));
            }
            UStep::Eof => {
                world::push_line(None);
                ended = true;
            }
            UStep::Steps(n) => {
                for _ in 0..*n {
                    if step_q() == 0 {
                        break;
                    }
                }
            }
            UStep::Tick(ms) => world::tick(ms.saturating_mul(1_000_000)),
            UStep::WaitBestmove(max) => {
                let before = bestmoves_in_log();
                let mut quiescent = false;
                for _ in 0..*max {
                    if bestmoves_in_log() > before {
                        break;
                    }
                    if step_q() == 0 {
                        quiescent = true;
                        break;
                    }
                }
                if quiescent {
                    world::note("settled");
                }
            }
            UStep::Settle(max) => {
                let mut quiescent = false;
                for _ in 0..*max {
                    if step_q() == 0 {
                        quiescent = true;
                        break;
                    }
                }
                world::note(if quiescent { "settled" } else { "settle-budget-used" });
            }
            UStep::SettleStalled(max) => {
                for _ in 0..*max {
                    if world::step() == 0 {
                        break;
                    }
                }
            }
            UStep::StallStdout => world::stall_stdout(),
            UStep::ResumeStdout => {
                world::resume_stdout();
            }
            UStep::NextTimer => {
                if let Some(d) = world::next_deadline() {
                    let now = world::peek_ns();
                    world::tick(d.saturating_sub(now));
                }
            }
        }
    }
    if !ended {
        world::push_line(None);
    }
    // let the process end: the command loop sees quit / EOF, collects a running search
    let mut guard = 0u64;
    loop {
        if exec_finished() {
            break;
        }
        if step_q() == 0 {
            // nothing runnable and the loop has not returned: only a timer could help
            match world::next_deadline() {
                Some(d) if guard < 100_000 => {
                    let now = world::peek_ns();
                    world::tick(d.saturating_sub(now).max(1));
                    guard += 1;
                }
                _ => break,
            }
        }
    }
    let ok = if exec_finished() { Some(h.join().unwrap_or(false)) } else { Some(h.join().unwrap_or(false)) };
    world::resume_stdout();
    // emulate time passing after the process would have exited: every detached timer
    // thread must observe its deadline and end
    world::note("end-of-session clock jump");
    world::tick(20_000_000_000_000_000);
    for _ in 0..1_000_000 {
        if step_q() == 0 {
            break;
        }
    }
    (ok, world::sleeper_count())
}

fn execute_session(case: &UciCase, spec: &SchedSpec) -> (Outcome, Option<Session>, crate::sched::SchedOut) {
    let c = case.clone();
    let out = exec::execute(spec, Run::new(case.rng_seed), move || session_world(c));
    let (ok, left) = out.value.unwrap_or((None, 0));
    let sess = out.run.map(|r| Session {
        log: r.log,
        labels: r.labels,
        exec_ok: ok,
        sleepers_left: left,
        clock_ns: r.clock_ns,
        nodes: r.probe.nodes_total,
        rng_draws: r.rng_draws,
        post_cancel_max: r.probe.post_cancel_nodes_max,
        cancel_mid_iteration: r.probe.interrupts_observed,
        sleeps: r.sleeps,
        max_workers: r.max_workers_in_iteration,
    });
    (out.outcome, sess, out.sched)
}

// ------------------------------------------------------------------ model

#[derive(Clone, Debug, PartialEq)]
enum Cmd {
    Uci,
    IsReady,
    NewGame,
    Position(Option<Pos>),
    Go { depth: Option<u32>, movetime_ms: Option<i64> },
    Stop,
    Quit,
    State,
    Other,
}

fn parse_cmd(line: &str, cur: &Option<Pos>) -> Cmd {
    let parts: Vec<&str> = line.split_ascii_whitespace().collect();
    match parts.first().copied() {
        Some("uci") => Cmd::Uci,
        Some("isready") => Cmd::IsReady,
        Some("ucinewgame") => Cmd::NewGame,
        Some("stop") => Cmd::Stop,
        Some("quit") => Cmd::Quit,
        Some(".state") => Cmd::State,
        Some(".status") => Cmd::Other,
        Some("go") => {
            let mut depth = None;
            let mut movetime_ms = None;
            let mut it = parts[1..].iter();
            while let Some(a) = it.next() {
                match *a {
                    "depth" => depth = it.next().and_then(|s| s.parse::<u32>().ok()),
                    "movetime" => movetime_ms = it.next().and_then(|s| s.parse::<i64>().ok()),
                    _ => {}
                }
            }
            Cmd::Go { depth, movetime_ms }
        }
        Some("position") => {
            let args = &parts[1..];
            let (pos_part, moves) = match args.iter().position(|a| *a == "moves") {
                Some(i) => (&args[..i], &args[i + 1..]),
                None => (args, &[][..]),
            };
            let start = match pos_part.first().copied() {
                Some("startpos") => Some(Pos::start()),
                Some("fen") => Pos::from_fen(&pos_part[1..].join(" ")).filter(|p| p.is_sane() && pos_part.len() == 7),
                _ => None,
            };
            let mut p = match start {
                Some(p) => p,
                None => return Cmd::Position(None),
            };
            for m in moves {
                match Mv::parse(m) {
                    Some(mv) if p.is_legal(mv) => p = p.make(mv),
                    _ => return Cmd::Position(None),
                }
            }
            let _ = cur;
            Cmd::Position(Some(p))
        }
        _ => Cmd::Other,
    }
}

struct GoInfo {
    line_no: usize,
    /// log index of the `In` event
    at: usize,
    /// log index by which the answer must have been printed
    deadline: usize,
    pos: Option<Pos>,
    expects_answer: bool,
    depth: Option<u32>,
    movetime_ms: i64,
    clock_at: u64,
}

pub fn judge_session(
    case: &UciCase,
    sess: &Session,
    outcome: &Outcome,
    well_formed: bool,
    v: &mut Vec<Violation>,
    stats: &mut RunStats,
) {
    let log = &sess.log;
    // index the log
    let mut in_at: BTreeMap<usize, usize> = BTreeMap::new(); // line n -> log idx
    let mut req_at: BTreeMap<usize, usize> = BTreeMap::new(); // request n -> log idx
    let mut lines: Vec<String> = Vec::new();
    let mut eof_at = None;
    let mut exec_ret_at = None;
    for (i, e) in log.iter().enumerate() {
        match e {
            Event::In { n, line } => {
                in_at.insert(*n, i);
                if lines.len() <= *n {
                    lines.resize(*n + 1, String::new());
                }
                lines[*n] = line.clone();
            }
            Event::InEof { .. } => eof_at = Some(i),
            Event::InReq { n } => {
                req_at.insert(*n, i);
            }
            Event::Note { text } if text.starts_with("exec returned") => exec_ret_at = Some(i),
            _ => {}
        }
    }
    let end_idx = exec_ret_at.unwrap_or(log.len());
    // handler window of line n: (In n, InReq n+1] or until exec returned
    let handler_end = |n: usize| req_at.get(&(n + 1)).copied().unwrap_or(end_idx);

    // replay the commands with the model
    let mut cur: Option<Pos> = Some(Pos::start());
    let mut gos: Vec<GoInfo> = Vec::new();
    let mut clock_at_idx = vec![0u64; log.len() + 1];
    {
        let mut c = 0u64;
        for (i, e) in log.iter().enumerate() {
            if let Event::Tick { now_ns } = e {
                c = *now_ns;
            }
            clock_at_idx[i + 1] = c;
        }
    }
    let delivered = in_at.len();
    let cmds: Vec<Cmd> = {
        let mut out = Vec::new();
        let mut c = cur.clone();
        for n in 0..delivered {
            let cmd = parse_cmd(&lines[n], &c);
            if let Cmd::Position(p) = &cmd {
                // a failed `position` leaves the engine's position unspecified for the model
                c = p.clone();
            }
            out.push(cmd);
        }
        out
    };
    for n in 0..delivered {
        let at = in_at[&n];
        let hend = handler_end(n);
        match &cmds[n] {
            Cmd::Uci => {
                stats.eval("C07:uci-answer");
                let outs: Vec<&str> = log[at..=hend.min(log.len() - 1)]
                    .iter()
                    .filter_map(|e| match e {
                        Event::Out { stream: 0, line, task } if sess.labels.get(task).map(|l| l == "exec").unwrap_or(false) => Some(line.as_str()),
                        _ => None,
                    })
                    .collect();
                let a = outs.iter().position(|l| l.starts_with("id name "));
                let b = outs.iter().position(|l| l.starts_with("id author "));
                let c = outs.iter().position(|l| *l == "uciok");
                if !(a.is_some() && b.is_some() && c.is_some() && a < b && b < c) && hend < log.len() {
                    v.push(Violation::new("C07", "uci-answer", "", format!("`uci` (line {}) was not answered by id name, id author, uciok in order: {:?}", n, outs)));
                }
            }
            Cmd::IsReady => {
                stats.eval("isready-answer");
                let count = log[at..=hend.min(log.len() - 1)]
                    .iter()
                    .filter(|e| matches!(e, Event::Out { stream: 0, line, .. } if line == "readyok"))
                    .count();
                if count != 1 && (hend < log.len() || *outcome == Outcome::Completed) {
                    let prop = if well_formed { "C07" } else { "C14" };
                    v.push(Violation::new(prop, "isready-answer", "", format!("`isready` (line {}) got {} `readyok` before the next command was read", n, count)));
                }
            }
            Cmd::Position(p) => {
                cur = p.clone();
            }
            Cmd::State => {
                if let Some(p) = &cur {
                    stats.eval("C07:position-tracking");
                    let fen = log[at..=hend.min(log.len() - 1)].iter().find_map(|e| match e {
                        Event::Out { stream: 1, line, .. } => line.lines().map(|l| l.trim()).find(|l| !l.is_empty()).map(|s| s.to_string()),
                        _ => None,
                    });
                    match fen {
                        Some(f) if f == p.fen() => {}
                        Some(f) => {
                            if well_formed {
                                v.push(Violation::new(
                                    "C07",
                                    "position-tracking",
                                    "",
                                    format!("after line {} the engine's position is '{}', chess rules give '{}' (commands: {:?})", n, f, p.fen(), &lines[..=n]),
                                ));
                            }
                        }
                        None => {}
                    }
                }
            }
            Cmd::Go { depth, movetime_ms } => {
                // closing command: next stop/go/position/quit/EOF
                let closer = (n + 1..delivered).find(|&k| matches!(cmds[k], Cmd::Stop | Cmd::Go { .. } | Cmd::Position(_) | Cmd::Quit));
                let deadline = match closer {
                    Some(k) => handler_end(k),
                    None => end_idx,
                };
                let expects = cur.as_ref().map(|p| !p.legal_moves().is_empty()).unwrap_or(false);
                gos.push(GoInfo {
                    line_no: n,
                    at,
                    deadline,
                    pos: cur.clone(),
                    expects_answer: expects,
                    depth: *depth,
                    movetime_ms: movetime_ms.unwrap_or(4000),
                    clock_at: clock_at_idx[at],
                });
            }
            _ => {}
        }
    }

    // bestmove lines, in order
    let bms: Vec<(usize, String)> = log
        .iter()
        .enumerate()
        .filter_map(|(i, e)| match e {
            Event::Out { stream: 0, line, .. } if line.starts_with("bestmove") => Some((i, line.clone())),
            _ => None,
        })
        .collect();
    let completed = *outcome == Outcome::Completed;
    if well_formed {
        let expecting: Vec<&GoInfo> = gos.iter().filter(|g| g.expects_answer).collect();
        let unknown_pos = gos.iter().any(|g| g.pos.is_none());
        let terminal_gos = gos.iter().filter(|g| g.pos.is_some() && !g.expects_answer).count();
        if terminal_gos > 0 {
            stats.probe("go-on-terminal-position");
        }
        if !unknown_pos {
            // in-order matching: the j-th bestmove answers the j-th go that expects one
            for (j, g) in expecting.iter().enumerate() {
                stats.eval("C07:one-bestmove-per-go");
                match bms.get(j) {
                    Some((bi, text)) => {
                        if *bi < g.at {
                            v.push(Violation::new("C07", "bestmove-window", "early", format!("bestmove #{} ('{}') was printed before its `go` (line {}) was delivered", j, text, g.line_no)));
                        } else if *bi > g.deadline && completed {
                            v.push(Violation::new(
                                "C07",
                                "bestmove-window",
                                "late",
                                format!("`go` at line {} was not answered before the closing command had been handled (answer '{}' came later)", g.line_no, text),
                            ));
                        }
                        // legality and spelling
                        stats.eval("C07:bestmove-legal");
                        let tok: Vec<&str> = text.split_ascii_whitespace().collect();
                        let pos = g.pos.as_ref().unwrap();
                        match tok.get(1).and_then(|t| Mv::parse(t)) {
                            Some(mv) if pos.is_legal(mv) => {}
                            _ => {
                                let class = tok.get(1).and_then(|t| Mv::parse(t)).map(|m| classify(pos, m)).unwrap_or("unparsable");
                                v.push(Violation::new(
                                    "C07",
                                    "bestmove-legal",
                                    class,
                                    format!("`go` at line {} on '{}' answered '{}', not a legal move there (commands: {:?})", g.line_no, pos.fen(), text, short(&lines[..=g.line_no])),
                                ));
                            }
                        }
                    }
                    None => {
                        if completed {
                            v.push(Violation::new(
                                "C07",
                                "one-bestmove-per-go",
                                "missing",
                                format!("`go` at line {} on '{}' was never answered by a bestmove", g.line_no, g.pos.as_ref().map(|p| p.fen()).unwrap_or_default()),
                            ));
                        }
                    }
                }
            }
            if completed && bms.len() > expecting.len() && terminal_gos == 0 {
                v.push(Violation::new(
                    "C07",
                    "one-bestmove-per-go",
                    "extra",
                    format!("{} bestmove lines for {} `go` commands", bms.len(), expecting.len()),
                ));
            }
            if terminal_gos > 0 && completed && bms.len() > expecting.len() {
                v.push(Violation::new("C04", "terminal-reports-nothing", "uci", format!("{} bestmove lines although only {} `go` commands were on positions with a legal move", bms.len(), expecting.len())));
            }
            // "answered when the depth limit is reached": a search given `depth d` that goes on to
            // report a completed iteration deeper than d did not answer at its depth limit (it is
            // running on its time limit instead). Only lines in the window that belongs to this
            // search beyond doubt are read: after the handler of its `go` returned (the previous
            // search and its writer are joined by then) and before the next `go` is delivered.
            for (gi, g) in gos.iter().enumerate() {
                let d = match g.depth {
                    Some(d) if d >= 1 => d,
                    _ => continue,
                };
                let from = handler_end(g.line_no);
                let to = gos.get(gi + 1).map(|n| n.at).unwrap_or(log.len());
                stats.eval("C07:stays-within-depth-limit");
                for i in from..to.min(log.len()) {
                    if let Event::Out { stream: 0, line, .. } = &log[i] {
                        if !line.starts_with("info time") {
                            continue;
                        }
                        let toks: Vec<&str> = line.split_ascii_whitespace().collect();
                        let reported = toks.iter().position(|t| *t == "depth").and_then(|k| toks.get(k + 1)).and_then(|t| t.parse::<u32>().ok());
                        if let Some(r) = reported {
                            if r > d {
                                v.push(Violation::new(
                                    "C07",
                                    "answer-at-depth-limit",
                                    "searched-deeper",
                                    format!("`{}` at line {}: the search completed iteration {} (`{}`) instead of answering when depth {} was reached", lines[g.line_no], g.line_no, r, line, d),
                                ));
                                break;
                            }
                        }
                    }
                }
            }
            // liveness at quiescence markers: depth reached / time up
            for (i, e) in log.iter().enumerate() {
                if !matches!(e, Event::Note { text } if text == "settled") {
                    continue;
                }
                for (j, g) in expecting.iter().enumerate() {
                    if g.at >= i {
                        continue;
                    }
                    let answered = bms.get(j).map(|b| b.0 < i).unwrap_or(false);
                    if answered {
                        continue;
                    }
                    let elapsed_ms = (clock_at_idx[i].saturating_sub(g.clock_at)) / 1_000_000;
                    // how promptly a time limit is honoured is not specified beyond "when the time is up":
                    // a full second of slack, far above the engine's 100 ms timer period
                    let time_up = (elapsed_ms as i64) >= g.movetime_ms.max(0) + 1000;
                    let depth_small = g.depth.map(|d| d >= 1 && d <= 4).unwrap_or(false);
                    if depth_small {
                        stats.eval("C07:depth-limit-answers");
                        v.push(Violation::new("C07", "answer-at-depth-limit", "", format!("`go depth {}` at line {}: the engine became idle without printing a bestmove", g.depth.unwrap(), g.line_no)));
                    } else if time_up {
                        stats.eval("C07:time-limit-answers");
                        v.push(Violation::new(
                            "C07",
                            "answer-at-time-limit",
                            "",
                            format!("`go` at line {} (time limit {} ms): {} ms later the engine is idle and has printed no bestmove", g.line_no, g.movetime_ms, elapsed_ms),
                        ));
                    }
                }
            }
        }
    }
    // pv lines: replayed for C03 (noted here, attributed there)
    {
        let mut gi = 0usize;
        for (i, e) in log.iter().enumerate() {
            if let Event::Out { stream: 0, line, .. } = e {
                if let Some(rest) = line.strip_prefix("info pv") {
                    while gi + 1 < gos.len() && gos[gi + 1].at < i {
                        gi += 1;
                    }
                    if let Some(g) = gos.get(gi) {
                        if let (Some(pos), true) = (&g.pos, g.at < i) {
                            stats.eval("C03:pv-replayed");
                            let mut p = pos.clone();
                            let toks: Vec<&str> = rest.split_ascii_whitespace().collect();
                            if toks.is_empty() && well_formed {
                                v.push(Violation::new("C03", "line-nonempty", "uci", format!("empty `info pv` for go at line {}", g.line_no)));
                            }
                            for (k, t) in toks.iter().enumerate() {
                                match Mv::parse(t) {
                                    Some(m) if p.is_legal(m) => p = p.make(m),
                                    other => {
                                        if well_formed {
                                            let class = other.map(|m| classify(&p, m)).unwrap_or("unparsable");
                                            v.push(Violation::new(
                                                "C03",
                                                "line-legal",
                                                &format!("{}:{}", if k == 0 { "first-move" } else { "later-move" }, class),
                                                format!("UCI: `{}` after go at line {} on '{}': move {} is illegal (commands {:?})", line, g.line_no, pos.fen(), t, short(&lines[..=g.line_no])),
                                            ));
                                        }
                                        break;
                                    }
                                }
                            }
                        }
                    }
                }
            }
        }
    }

    // how the session ended
    let any_terminal_go = gos.iter().any(|g| g.pos.is_some() && !g.expects_answer);
    let owner = if !well_formed {
        "C14"
    } else if any_terminal_go {
        "C04"
    } else {
        "C07"
    };
    match outcome {
        Outcome::Completed => {
            stats.eval("session-ends-cleanly");
            if sess.exec_ok != Some(true) {
                v.push(Violation::new(owner, "exit-status", "", "the command loop did not return Ok after quit / end of input".to_string()));
            }
            if sess.sleepers_left > 0 {
                v.push(Violation::new(owner, "timers-terminate", "", format!("{} timer threads still asleep after the clock passed every deadline", sess.sleepers_left)));
            }
        }
        Outcome::Panic { msg, loc } => {
            let last = lines.last().cloned().unwrap_or_default();
            let word = last.split_ascii_whitespace().next().unwrap_or("").to_string();
            v.push(Violation::new(
                owner,
                "no-panic",
                &format!("{}:{}", loc, if owner == "C14" { word.as_str() } else if any_terminal_go { "terminal-root" } else { "session" }),
                format!("a thread of the UCI process panicked: {} at {}; commands so far: {:?}", msg, loc, short(&lines)),
            ));
        }
        Outcome::Deadlock { msg } => {
            v.push(Violation::new(owner, "process-ends", "deadlock", format!("the process hangs: {}; commands: {:?}", msg, short(&lines))));
        }
        Outcome::Abort { msg } if msg.contains("post-cancel") => {
            v.push(Violation::new("C04", "stop-prompt", "uci", format!("a worker searched more than {} nodes after the cancellation signal; commands: {:?}", case.post_cancel_bound, short(&lines))));
        }
        Outcome::Abort { msg } => {
            // a search that nobody has asked to end may legitimately still be running
            let last_go = cmds.iter().rposition(|c| matches!(c, Cmd::Go { .. }));
            let canceller_after = match last_go {
                Some(g) => cmds[g + 1..].iter().any(|c| matches!(c, Cmd::Stop | Cmd::Go { .. } | Cmd::Position(_) | Cmd::Quit | Cmd::NewGame)) || eof_at.is_some(),
                None => true,
            };
            let time_up = gos.last().map(|g| ((clock_at_idx[log.len()].saturating_sub(g.clock_at)) / 1_000_000) as i64 >= g.movetime_ms.max(0) + 1000).unwrap_or(false);
            if canceller_after || time_up {
                v.push(Violation::new(owner, "process-ends", "node-cap", format!("the session did not end within the node cap ({}); commands: {:?}", msg, short(&lines))));
            } else {
                stats.probe("harness:uncancelled-search-hit-node-cap");
            }
        }
        Outcome::StepCap => {
            v.push(Violation::new(owner, "process-ends", "step-cap", format!("the session did not end within the step cap; commands: {:?}", short(&lines))));
        }
    }
}

/// Command lines for a violation's detail text, each cut to a readable length.
fn short(lines: &[String]) -> Vec<String> {
    lines
        .iter()
        .map(|l| {
            if l.chars().count() > 200 {
                let head: String = l.chars().take(160).collect();
                format!("{}...[{} chars]", head, l.chars().count())
            } else {
                l.clone()
            }
        })
        .collect()
}

fn classify(p: &Pos, m: Mv) -> &'static str {
    let pc = p.board[m.from as usize];
    let kind = pc & 7;
    let df = (m.from % 8) as i32 - (m.to % 8) as i32;
    if pc == refchess::EMPTY {
        "from-empty-square"
    } else if (pc >> 3) != p.side {
        "wrong-colour"
    } else if kind == refchess::KING && df.abs() == 2 {
        "castle"
    } else if kind == refchess::PAWN && df != 0 && p.board[m.to as usize] == refchess::EMPTY {
        "en-passant"
    } else {
        "other"
    }
}

fn render(sess: &Session) -> Vec<String> {
    sess.log
        .iter()
        .map(|e| match e {
            Event::Out { task, stream, line } => format!(
                "{}[{}] {}",
                if *stream == 0 { "out" } else { "err" },
                sess.labels.get(task).cloned().unwrap_or_else(|| format!("t{}", task)),
                if *stream == 1 { line.lines().map(|l| l.trim()).find(|l| !l.is_empty()).unwrap_or("").to_string() } else { line.clone() }
            ),
            Event::In { n, line } => format!("in {}: {}", n, line),
            Event::InEof { n } => format!("in {}: <EOF>", n),
            Event::InReq { n } => format!("req {}", n),
            Event::Tick { now_ns } => format!("clock {} ms", now_ns / 1_000_000),
            Event::Note { text } => format!("note {}", text),
        })
        .collect()
}

/// Search output (info / bestmove lines) printed from the delivery of input line
/// `first_line` on (C18: the part of the session after `ucinewgame`).
fn probe_transcript(sess: &Session, first_line: usize) -> Vec<String> {
    let mut start = None;
    for (i, e) in sess.log.iter().enumerate() {
        if let Event::In { n, .. } = e {
            if *n == first_line {
                start = Some(i);
                break;
            }
        }
    }
    let Some(s) = start else { return vec!["<probe part never delivered>".to_string()] };
    sess.log[s..]
        .iter()
        .filter_map(|e| match e {
            Event::Out { stream: 0, line, .. } if line.starts_with("info time") => {
                // elapsed time and nodes-per-second depend on the clock, which the property does
                // not speak about: keep depth and node count only
                let t: Vec<&str> = line.split_ascii_whitespace().collect();
                let field = |k: &str| t.iter().position(|x| *x == k).and_then(|i| t.get(i + 1)).copied().unwrap_or("?");
                Some(format!("info depth {} nodes {}", field("depth"), field("nodes")))
            }
            Event::Out { stream: 0, line, .. } if line.starts_with("info") || line.starts_with("bestmove") => Some(line.clone()),
            _ => None,
        })
        .collect()
}

pub fn run(_ctx: &Ctx, case: &UciCase, spec: &SchedSpec) -> RunReport {
    let (outcome, sess, sched) = execute_session(case, spec);
    let mut stats = RunStats::default();
    stats.absorb_sched(&sched);
    let mut violations = Vec::new();
    let mut harness_error = None;
    let mut digest = FNV_INIT;
    let mut transcript = Vec::new();
    let well_formed = case.malformed.is_empty();
    match &sess {
        Some(s) => {
            judge_session(case, s, &outcome, well_formed, &mut violations, &mut stats);
            transcript = render(s);
            for l in &transcript {
                fnv_str(&mut digest, l);
            }
            stats.nodes = s.nodes;
            stats.post_cancel_max = s.post_cancel_max;
            stats.sim_ns = s.clock_ns.min(4_000_000_000_000);
            stats.probe_n("cancel-observed-mid-iteration", s.cancel_mid_iteration);
            stats.probe_n("timer-sleeps", s.sleeps);
            if s.max_workers >= 2 {
                stats.probe("multi-worker-iteration");
            }
            session_probes(case, s, &mut stats);
        }
        None => harness_error = Some("no session state".to_string()),
    }
    fnv_str(&mut digest, &format!("{:?}", outcome));
    transcript.push(format!("outcome {:?}", outcome));

    // C18: the probe part must read the same as in a freshly started session
    // (only meaningful when a `ucinewgame` separates the probe from every earlier `go`)
    let separated = case.probe_from.map(|pf| newgame_separates(&case.script, pf)).unwrap_or(false);
    if let (Some(pf), Some(sa), true, true) = (case.probe_from, &sess, outcome == Outcome::Completed, separated) {
        let mut fresh = case.clone();
        fresh.script = case.script[pf..].to_vec();
        fresh.probe_from = None;
        // `ucinewgame` does not touch the current position: if the new game starts searching
        // without setting one up, the fresh session is given the last `position` line of game 1
        let starts_with_position = fresh.script.iter().find_map(|s| if let UStep::Line(l) = s { Some(l.starts_with("position")) } else { None }).unwrap_or(true);
        let mut fresh_first_line = 0usize;
        if !starts_with_position {
            let last_pos = case.script[..pf].iter().rev().find_map(|s| match s {
                UStep::Line(l) if l.starts_with("position") => Some(l.clone()),
                _ => None,
            });
            if let Some(l) = last_pos {
                fresh.script.insert(0, UStep::Line(l));
                fresh_first_line = 1;
            }
        }
        let mut s2 = spec.clone();
        s2.seed = crate::rng::derive(spec.seed, 18, 1);
        s2.strategy = Strategy::Sticky(900);
        s2.trace = None;
        let (o2, sb, sched2) = execute_session(&fresh, &s2);
        stats.absorb_sched(&sched2);
        stats.eval("C18:differential");
        let lines_before = case.script[..pf].iter().filter(|s| matches!(s, UStep::Line(_))).count();
        // The comparison presumes that both sessions were driven alike: every `go` of the new
        // game had come to rest before the next command was delivered. When a Settle step ran out
        // of its step budget (a long game-1 search ate it), later commands were delivered early
        // in one session only, and a difference says nothing about search memory.
        let budget_used = |s: &Session| s.log.iter().any(|e| matches!(e, Event::Note { text } if text == "settle-budget-used"));
        let skip = budget_used(sa) || sb.as_ref().map(|s| budget_used(s)).unwrap_or(false);
        if skip {
            stats.probe("C18:comparison-skipped:settle-budget-used");
        }
        if let (Some(sb), true) = (sb, o2 == Outcome::Completed) {
            let ta = probe_transcript(sa, lines_before);
            let tb = probe_transcript(&sb, fresh_first_line);
            if skip {
                // nothing to conclude
            } else if ta != tb {
                let d = ta.iter().zip(tb.iter()).position(|(a, b)| a != b).unwrap_or(ta.len().min(tb.len()));
                let cmds: Vec<&String> = case.script.iter().filter_map(|s| if let UStep::Line(l) = s { Some(l) } else { None }).collect();
                violations.push(Violation::new(
                    "C18",
                    "fresh-after-ucinewgame",
                    "",
                    format!(
                        "after `ucinewgame` the probe search answers differently from a fresh session: first difference at output line {}: {:?} vs fresh {:?}; commands: {:?}",
                        d,
                        ta.get(d),
                        tb.get(d),
                        cmds
                    ),
                ));
            } else {
                stats.probe("probe-transcripts-equal");
            }
            fnv_str(&mut digest, &format!("{:?}", tb));
        } else {
            harness_error = Some(format!("fresh comparison session ended with {:?}", o2));
        }
    }
    RunReport { violations, harness_error, outcome, stats, digest, trace: sched.trace, diverged: sched.diverged, transcript }
}

/// Is there a `ucinewgame` before script index `pf` with no `go` between it and `pf`?
fn newgame_separates(script: &[UStep], pf: usize) -> bool {
    let mut seen_newgame = false;
    for st in &script[..pf.min(script.len())] {
        if let UStep::Line(l) = st {
            match l.split_ascii_whitespace().next() {
                Some("ucinewgame") => seen_newgame = true,
                Some("go") => seen_newgame = false,
                _ => {}
            }
        }
    }
    seen_newgame
}

fn session_probes(case: &UciCase, s: &Session, stats: &mut RunStats) {
    // which situations were actually reached
    let mut search_running = false;
    let mut last_go = None;
    for e in &s.log {
        match e {
            Event::In { line, .. } => {
                let w = line.split_ascii_whitespace().next().unwrap_or("");
                if search_running {
                    match w {
                        "go" => stats.probe("go-while-search-running"),
                        "stop" => stats.probe("stop-while-search-running"),
                        "position" => stats.probe("position-while-search-running"),
                        "ucinewgame" => stats.probe("ucinewgame-while-search-running"),
                        "isready" => stats.probe("isready-while-search-running"),
                        "quit" => stats.probe("quit-while-search-running"),
                        _ => {}
                    }
                } else if w == "stop" {
                    stats.probe("stop-after-completion");
                }
                if w == "go" {
                    search_running = true;
                    last_go = Some(line.clone());
                }
            }
            Event::InEof { .. } => {
                if search_running {
                    stats.probe("eof-while-search-running");
                }
            }
            Event::Out { stream: 0, line, task } => {
                if line.starts_with("bestmove") {
                    search_running = false;
                    if s.labels.get(task).map(|l| l == "exec").unwrap_or(false) {
                        stats.probe("book-answer");
                    } else {
                        stats.probe("search-answer");
                    }
                }
            }
            _ => {}
        }
    }
    let _ = last_go;
    if s.clock_ns > 3_600_000_000_000 && case.script.iter().any(|x| matches!(x, UStep::Tick(ms) if *ms >= 3_600_000)) {
        stats.fault("clock-jump");
    }
    for st in &case.script {
        match st {
            UStep::Tick(_) => stats.fault("clock-tick"),
            UStep::NextTimer => stats.fault("advance-to-next-timer"),
            UStep::Eof => stats.fault("eof"),
            UStep::StallStdout => stats.fault("stdout-stall"),
            _ => {}
        }
    }
    for _ in &case.malformed {
        stats.fault("malformed-line");
    }
}

// ------------------------------------------------------------------ generation

fn timing(rng: &mut Rng64, script: &mut Vec<UStep>, heavy_running: bool) {
    // While a search that only an outside event can end may be running, waiting is kept
    // short (the clock is what ends it); otherwise budgets are generous.
    let budget: u32 = if heavy_running { 20_000 } else { 400_000 };
    match rng.below(14) {
        0 => {}
        1 => script.push(UStep::Steps(1)),
        2 => script.push(UStep::Steps(3 + rng.below(10) as u32)),
        3 => script.push(UStep::Steps(100 + rng.below(1000) as u32)),
        4 => script.push(UStep::Steps(if heavy_running { 3_000 + rng.below(20_000) as u32 } else { 2000 })),
        5 => script.push(UStep::Tick(*rng.pick(&[0u64, 1, 50, 99, 100, 101]))),
        6 => script.push(UStep::Tick(*rng.pick(&[1000u64, 3_999, 4_000, 4_100, 10_000]))),
        7 => script.push(UStep::Tick(3_600_000)),
        8 | 9 => {
            if heavy_running && rng.chance(600) {
                script.push(UStep::Tick(*rng.pick(&[1_200u64, 5_100, 1_001_100])));
            }
            script.push(UStep::WaitBestmove(budget));
        }
        10 | 11 => {
            if heavy_running && rng.chance(600) {
                script.push(UStep::Tick(*rng.pick(&[1_200u64, 5_100, 1_001_100])));
            }
            script.push(UStep::Settle(budget));
        }
        12 => script.push(UStep::NextTimer),
        _ => {
            script.push(UStep::Tick(*rng.pick(&[1_200u64, 5_100])));
            script.push(UStep::Settle(budget));
        }
    }
}

/// A `position` line from the session's theme: the theme position itself, one of its
/// siblings (same placement, other castling rights / en-passant square), or a position a
/// few plies on. This is how a game (and its analysis) revisits almost-equal positions.
fn themed_position_line(rng: &mut Rng64, theme: &Pos) -> (String, Pos) {
    loop {
        let base = match rng.below(4) {
            0 => theme.clone(),
            1 | 2 => {
                let sibs = corpus::siblings(theme);
                if sibs.is_empty() {
                    theme.clone()
                } else {
                    rng.pick(&sibs).clone()
                }
            }
            _ => {
                let k = 1 + rng.below(2) as u32;
                let q = corpus::random_play(rng, theme, k).0;
                let sibs = corpus::siblings(&q);
                if !sibs.is_empty() && rng.chance(500) {
                    rng.pick(&sibs).clone()
                } else {
                    q
                }
            }
        };
        let plies = *rng.pick(&[0u32, 0, 0, 1, 2]);
        let (end, ms) = corpus::random_play(rng, &base, plies);
        let mut line = format!("position fen {}", base.fen());
        if !ms.is_empty() {
            line.push_str(" moves");
            for m in &ms {
                line.push(' ');
                line.push_str(&m.uci());
            }
        }
        if !end.legal_moves().is_empty() {
            return (line, end);
        }
    }
}

fn position_line(rng: &mut Rng64, want_moves: bool) -> (String, Pos) {
    loop {
        let (mut line, start) = match rng.below(10) {
            0..=3 => ("position startpos".to_string(), Pos::start()),
            4..=5 => {
                let p = Pos::from_fen(rng.pick(corpus::RIGHTS)).unwrap();
                let sibs = corpus::siblings(&p);
                let q = if !sibs.is_empty() && rng.chance(600) { rng.pick(&sibs).clone() } else { p };
                (format!("position fen {}", q.fen()), q)
            }
            6..=7 => {
                let p = Pos::from_fen(rng.pick(corpus::NORMAL)).unwrap();
                (format!("position fen {}", p.fen()), p)
            }
            8 => {
                let p = Pos::from_fen(rng.pick(corpus::SPECIAL)).unwrap();
                (format!("position fen {}", p.fen()), p)
            }
            _ => {
                let p = if rng.chance(500) { corpus::random_tb_pos(rng) } else { corpus::random_heavy(rng) };
                (format!("position fen {}", p.fen()), p)
            }
        };
        let plies = if want_moves { *rng.pick(&[0u32, 0, 1, 2, 3, 4, 6, 9, 12, 20]) } else { 0 };
        let (end, ms) = corpus::random_play(rng, &start, plies);
        if !ms.is_empty() {
            line.push_str(" moves");
            for m in &ms {
                line.push(' ');
                line.push_str(&m.uci());
            }
        }
        if !end.legal_moves().is_empty() {
            return (line, end);
        }
    }
}

fn go_line(rng: &mut Rng64, allow_unlimited: bool) -> (String, bool) {
    // returns (line, heavy: may run until stopped)
    match rng.below(12) {
        0..=4 => (format!("go depth {}", 1 + rng.below(4)), false),
        5 => (format!("go depth {} movetime {}", 1 + rng.below(3), *rng.pick(&[0u64, 100, 4000])), false),
        6 => ("go movetime 0".to_string(), false),
        7 => (format!("go movetime {}", *rng.pick(&[1u64, 50, 100])), true),
        8 => (format!("go movetime {}", *rng.pick(&[4000u64, 1_000_000])), true),
        9 | 10 if allow_unlimited => ("go".to_string(), true),
        _ => (format!("go depth {}", 1 + rng.below(3)), false),
    }
}

pub fn generate(ctx: &Ctx, prop: &str, rng: &mut Rng64, thorough: bool, index: u64) -> UciCase {
    let mut case = UciCase {
        prop: prop.to_string(),
        dims: *rng.pick(&[(8usize, 64usize), (8, 1024), (2, 8), (8, 64)]),
        rayon_threads: *rng.pick(&[1usize, 2, 4]),
        rng_seed: rng.next(),
        rng_constant: None,
        script: Vec::new(),
        probe_from: None,
        malformed: Vec::new(),
        post_cancel_bound: ctx.post_cancel_bound,
        node_cap: 4_000_000,
    };
    let mut s: Vec<UStep> = Vec::new();
    let mut heavy_budget = 1; // at most one search per session that has to be stopped from outside
    // four sessions in ten stay with one family of positions
    let theme: Option<Pos> = if rng.chance(400) {
        if rng.chance(350) {
            // an opening position where castling is a book move: its siblings (other castling
            // rights) share the placement, and the book answers without a search
            Some(corpus::book_castle_position(rng))
        } else {
            let base = Pos::from_fen(rng.pick(corpus::RIGHTS)).unwrap();
            Some(if rng.chance(300) { corpus::random_play(rng, &base, 2).0 } else { base })
        }
    } else {
        None
    };
    let theme_ref = theme.clone();
    let session = |rng: &mut Rng64, s: &mut Vec<UStep>, heavy_budget: &mut i32, ncmd: usize, allow_terminal: bool| {
        let theme = theme_ref.clone();
        let mut pos_known = true;
        let mut search_may_run = false;
        let mut heavy_running = false;
        for _ in 0..ncmd {
            // themed sessions keep coming back to "set up a sibling, search it briefly"
            if let (Some(t), true) = (&theme, rng.chance(300)) {
                let (l, _) = themed_position_line(rng, t);
                s.push(UStep::Line(l));
                s.push(UStep::Line(format!("go depth {}", 1 + rng.below(2))));
                s.push(UStep::Settle(400_000));
                search_may_run = false;
                heavy_running = false;
                continue;
            }
            match rng.below(100) {
                0..=27 => {
                    let (l, _) = if allow_terminal && rng.chance(250) {
                        let p = if rng.chance(500) { Pos::from_fen(rng.pick(corpus::TERMINAL)).unwrap() } else { let m = rng.chance(500); corpus::tb_terminal(rng, m) };
                        (format!("position fen {}", p.fen()), p)
                    } else if rng.chance(120) {
                        // a move list that exercises one rule of the position update, possibly
                        // cut short or continued by a few random plies; always looked at with .state
                        let (fen, line) = *rng.pick(corpus::SPECIAL_LINES);
                        let toks: Vec<&str> = line.split_ascii_whitespace().collect();
                        let cut = toks.len() - if rng.chance(250) { rng.below(toks.len() as u64) as usize } else { 0 };
                        let mut p = Pos::from_fen(fen).unwrap();
                        let mut ms: Vec<String> = Vec::new();
                        for t in &toks[..cut] {
                            let m = Mv::parse(t).unwrap();
                            p = p.make(m);
                            ms.push(t.to_string());
                        }
                        let extra = *rng.pick(&[0u32, 0, 1, 2, 3]);
                        let (end, more) = corpus::random_play(rng, &p, extra);
                        for m in &more {
                            ms.push(m.uci());
                        }
                        let l = if ms.is_empty() { format!("position fen {}", fen) } else { format!("position fen {} moves {}", fen, ms.join(" ")) };
                        if end.legal_moves().is_empty() {
                            position_line(rng, true)
                        } else {
                            s.push(UStep::Line(l));
                            s.push(UStep::Line(".state".to_string()));
                            (format!("go depth {}", 1 + rng.below(3)), end)
                        }
                    } else if let (Some(t), true) = (&theme, rng.chance(800)) {
                        themed_position_line(rng, t)
                    } else {
                        position_line(rng, true)
                    };
                    s.push(UStep::Line(l));
                    pos_known = true;
                    if rng.chance(500) {
                        s.push(UStep::Line(".state".to_string()));
                    }
                    search_may_run = false;
                    heavy_running = false;
                }
                28..=62 => {
                    let (l, heavy) = go_line(rng, *heavy_budget > 0);
                    if heavy {
                        *heavy_budget -= 1;
                    }
                    s.push(UStep::Line(l));
                    search_may_run = true;
                    heavy_running = heavy;
                    timing(rng, s, heavy_running);
                    continue;
                }
                63..=74 => {
                    s.push(UStep::Line("stop".to_string()));
                    if search_may_run && rng.chance(300) {
                        s.push(UStep::Line("stop".to_string()));
                    }
                    search_may_run = false;
                    heavy_running = false;
                }
                75..=86 => s.push(UStep::Line("isready".to_string())),
                87..=92 => {
                    s.push(UStep::Line("ucinewgame".to_string()));
                    heavy_running = false;
                }
                93..=95 => s.push(UStep::Line("uci".to_string())),
                96..=97 => s.push(UStep::Line(".status".to_string())),
                _ => s.push(UStep::Line(".state".to_string())),
            }
            let _ = pos_known;
            if rng.chance(600) {
                timing(rng, s, heavy_running);
            }
        }
        heavy_running
    };
    match prop {
        "C07" | "C04" => {
            if rng.chance(700) {
                s.push(UStep::Line("uci".to_string()));
            }
            if rng.chance(400) {
                s.push(UStep::Line("isready".to_string()));
            }
            let n = 3 + rng.below(if thorough { 20 } else { 12 }) as usize;
            if rng.chance(500) {
                heavy_budget = 0;
            }
            let _ = session(rng, &mut s, &mut heavy_budget, n, prop == "C04");
            if rng.chance(200) {
                // the last search ends by itself (depth limit) and the session ends a drawn
                // number of steps later: before, while and after the writer prints the answer
                let p = Pos::from_fen(rng.pick(corpus::NORMAL)).unwrap();
                s.push(UStep::Line(format!("position fen {}", p.fen())));
                s.push(UStep::Line(format!("go depth {}", 1 + rng.below(2))));
                if rng.chance(500) {
                    // ... with a reader that is late draining the engine's output: the search
                    // ends by itself while its answer is still stuck in the writer
                    s.push(UStep::StallStdout);
                }
                let k = match rng.below(3) {
                    0 => rng.below(60),
                    1 => rng.below(400),
                    _ => rng.below(2500),
                };
                if matches!(s.last(), Some(UStep::StallStdout)) && rng.chance(700) {
                    // (the last command then arrives while the answer is still stuck)
                    s.push(UStep::SettleStalled(400_000));
                } else {
                    s.push(UStep::Steps(k as u32));
                }
            } else if rng.chance(300) {
                s.push(UStep::Line("isready".to_string()));
            }
            if rng.chance(120) {
                // stdout stops being read somewhere in the session (and is read again later,
                // or when the process can do nothing else)
                let at = rng.below(s.len() as u64 + 1) as usize;
                s.insert(at, UStep::StallStdout);
                if rng.chance(500) {
                    let back = at + 1 + rng.below((s.len() - at) as u64) as usize;
                    s.insert(back, UStep::ResumeStdout);
                }
            }
            if rng.chance(500) {
                s.push(UStep::Line("quit".to_string()));
            } else {
                s.push(UStep::Eof);
            }
        }
        "C14" => {
            if rng.chance(500) {
                s.push(UStep::Line("uci".to_string()));
            }
            let n = 2 + rng.below(if thorough { 14 } else { 8 }) as usize;
            if rng.chance(600) {
                heavy_budget = 0;
            }
            let _ = session(rng, &mut s, &mut heavy_budget, n, false);
            // inject malformed lines at drawn places, each followed (sooner or later) by isready
            let k = 1 + rng.below(4) as usize;
            let enumerated = crate::malformed::enumerated_cached();
            for j in 0..k {
                let valid: Vec<String> = s.iter().filter_map(|x| if let UStep::Line(l) = x { Some(l.clone()) } else { None }).collect();
                // the first runs walk the enumerated list once, entry by entry
                let bad = if j == 0 && (index as usize) < enumerated.len() { enumerated[index as usize].clone() } else { crate::malformed::make(rng, &valid) };
                let at = rng.below(s.len() as u64 + 1) as usize;
                let accepted_looking = bad.starts_with("position fen") || bad.starts_with("position startpos");
                s.insert(at, UStep::Line(bad));
                let mut j = at + 1;
                // text that sets up something: let the engine work on whatever it made of it
                if accepted_looking && rng.chance(600) {
                    s.insert(j, UStep::Line(format!("go depth {}", 1 + rng.below(3))));
                    s.insert(j + 1, UStep::Settle(60_000));
                    j += 2;
                }
                if rng.chance(400) {
                    s.insert(j, UStep::Steps(1 + rng.below(50) as u32));
                    j += 1;
                }
                s.insert(j, UStep::Line("isready".to_string()));
            }
            s.push(UStep::Line("isready".to_string()));
            s.push(UStep::Line("quit".to_string()));
            // recompute malformed indices
            let valid_heads = ["uci", "isready", "ucinewgame", "position", "go", "stop", "quit", ".state"];
            for (i, x) in s.iter().enumerate() {
                if let UStep::Line(l) = x {
                    if !crate::malformed::is_well_formed(l, &valid_heads) {
                        case.malformed.push(i);
                    }
                }
            }
            if case.malformed.is_empty() {
                // the mutation happened to produce a valid line; force one
                s.insert(0, UStep::Line("position startpos moves e2".to_string()));
                s.insert(1, UStep::Line("isready".to_string()));
                case.malformed = vec![0];
                for m in case.malformed.iter_mut().skip(1) {
                    *m += 2;
                }
            }
        }
        "C18" => {
            case.rng_constant = Some(0x0000_0000_5eed_5eed);
            if rng.chance(120) {
                // game 1 ends on the board: the final (mated) position is searched and
                // collected; the new game then reaches a position one move before it
                let (pred, term) = loop {
                    let p = corpus::tb_win_in(rng, &ctx.tb, 1);
                    let mates: Vec<Mv> = p.legal_moves().into_iter().filter(|m| p.make(*m).is_checkmate()).collect();
                    if let Some(m) = mates.first() {
                        break (p.clone(), p.make(*m));
                    }
                };
                case.dims = (8, 1024);
                let mut s: Vec<UStep> = Vec::new();
                s.push(UStep::Line(format!("position fen {}", term.fen())));
                s.push(UStep::Line(format!("go depth {}", 1 + rng.below(3))));
                s.push(UStep::Settle(60_000));
                match rng.below(3) {
                    0 => s.push(UStep::Line("stop".to_string())),
                    1 => s.push(UStep::Line(format!("position fen {}", pred.fen()))),
                    _ => {}
                }
                s.push(UStep::Line("ucinewgame".to_string()));
                case.probe_from = Some(s.len());
                s.push(UStep::Line(format!("position fen {}", pred.fen())));
                s.push(UStep::Line(format!("go depth {}", 2 + rng.below(3))));
                s.push(UStep::Settle(400_000));
                s.push(UStep::Line("quit".to_string()));
                case.script = s;
                return case;
            }
            // a table in which the short searches of the new game displace nothing: the
            // comparison must not depend on how keys happen to be routed
            case.dims = (8, 1024);
            // game 1
            if rng.chance(500) {
                s.push(UStep::Line("uci".to_string()));
            }
            let n = 1 + rng.below(if thorough { 14 } else { 9 }) as usize;
            if rng.chance(650) {
                heavy_budget = 0;
            }
            let heavy = session(rng, &mut s, &mut heavy_budget, n, false);
            // ... possibly collected by stop / position / go, or still running
            match rng.below(6) {
                0 => s.push(UStep::Line("stop".to_string())),
                1 => {
                    s.push(UStep::WaitBestmove(if heavy { 20_000 } else { 400_000 }));
                    s.push(UStep::Line("stop".to_string()));
                }
                2 => {
                    let (l, _) = position_line(rng, true);
                    s.push(UStep::Line(l));
                }
                3 => s.push(UStep::Settle(if heavy { 20_000 } else { 400_000 })),
                _ => {}
            }
            if rng.chance(300) {
                s.push(UStep::Line("isready".to_string()));
            }
            s.push(UStep::Line("ucinewgame".to_string()));
            if rng.chance(250) {
                s.push(UStep::Line("ucinewgame".to_string()));
            }
            if rng.chance(300) {
                s.push(UStep::Line("isready".to_string()));
            }
            // probe: the new game starts here; everything from here on is compared with a
            // freshly started session given the same lines (searches run to completion one
            // at a time, depth <= 2, so the transcript does not depend on the schedule)
            case.probe_from = Some(s.len());
            let earlier: Vec<String> = s.iter().filter_map(|x| if let UStep::Line(l) = x { if l.starts_with("position") { Some(l.clone()) } else { None } } else { None }).collect();
            let rounds = *rng.pick(&[1usize, 1, 2, 2, 3, 4]);
            for r in 0..rounds {
                // prefer positions related to game 1 (same placements are where stale memory
                // bites) and book positions (answered without a search)
                let pl = match rng.below(10) {
                    0..=1 if theme.is_some() => themed_position_line(rng, theme.as_ref().unwrap()).0,
                    0..=4 if !earlier.is_empty() => rng.pick(&earlier).clone(),
                    5..=6 => "position startpos".to_string(),
                    7 => {
                        let k = 1 + rng.below(3) as u32;
                        let (_, ms) = corpus::random_play(rng, &Pos::start(), k);
                        format!("position startpos moves {}", ms.iter().map(|m| m.uci()).collect::<Vec<_>>().join(" "))
                    }
                    _ => position_line(rng, true).0,
                };
                // (the first round sometimes keeps the position that was set before `ucinewgame`,
                // provided that line is well-formed and its position has a legal move)
                // (disabled: whether `ucinewgame` keeps the current position is not something C18
                // speaks about; an engine that resets it to the start position would be flagged)
                let keep_old = false && r == 0 && rng.chance(200) && !earlier.is_empty();
                if (r == 0 && !keep_old) || (r > 0 && rng.chance(700)) {
                    s.push(UStep::Line(pl));
                }
                if rng.chance(150) {
                    s.push(UStep::Line("isready".to_string()));
                }
                s.push(UStep::Line(format!("go depth {}", 1 + rng.below(2))));
                s.push(UStep::Settle(400_000));
                if rng.chance(200) {
                    s.push(UStep::Line("stop".to_string()));
                }
            }
            s.push(UStep::Line("quit".to_string()));
        }
        _ => unreachable!(),
    }
    case.script = s;
    case
}

pub fn shrink(case: &UciCase) -> Vec<UciCase> {
    let mut out = Vec::new();
    let n = case.script.len();
    let fix = |c: &mut UciCase, removed: usize| {
        c.malformed = c.malformed.iter().filter(|&&m| m != removed).map(|&m| if m > removed { m - 1 } else { m }).collect();
        if let Some(pf) = c.probe_from {
            if removed < pf {
                c.probe_from = Some(pf - 1);
            }
        }
    };
    for i in 0..n {
        // never remove the probe part of a C18 case, nor the last malformed line
        if let Some(pf) = case.probe_from {
            if i >= pf {
                continue;
            }
        }
        if case.malformed.len() == 1 && case.malformed[0] == i {
            continue;
        }
        let mut c = case.clone();
        c.script.remove(i);
        fix(&mut c, i);
        if let Some(pf) = c.probe_from {
            if !newgame_separates(&c.script, pf) {
                continue;
            }
        }
        out.push(c);
    }
    // shorten move lists
    for i in 0..n {
        if let UStep::Line(l) = &case.script[i] {
            if let Some(idx) = l.find(" moves ") {
                if case.probe_from.map(|pf| i >= pf).unwrap_or(false) {
                    continue;
                }
                let toks: Vec<&str> = l[idx + 7..].split_ascii_whitespace().collect();
                if toks.len() > 1 {
                    let mut c = case.clone();
                    c.script[i] = UStep::Line(format!("{} moves {}", &l[..idx], toks[..toks.len() - 1].join(" ")));
                    out.push(c);
                }
            }
        }
    }
    if case.rayon_threads > 1 {
        let mut c = case.clone();
        c.rayon_threads = 1;
        out.push(c);
    }
    if case.dims != (8, 64) {
        let mut c = case.clone();
        c.dims = (8, 64);
        out.push(c);
    }
    out
}

pub fn nontrivial(case: &UciCase) -> bool {
    case.script.iter().filter(|s| matches!(s, UStep::Line(l) if l.starts_with("go"))).count() >= 1
}
