#!/bin/bash
# tools/confirm_seeded.sh <worktree> <name>
# Independently confirms a seeded change produced in a scratch worktree: the patch applies
# to /repo's HEAD, the 43 baseline tests pass with it, the demonstration fails with it and
# passes without it. On success the change is stored under /verif/seeded/<name>/.
set -u
wt=$1; name=$2
cd "$wt" || exit 2
[ -f SEEDED/patch.diff ] || { echo "no SEEDED/patch.diff"; exit 2; }
# state: patch applied?
if git apply -R --check SEEDED/patch.diff 2>/dev/null; then :; else git apply SEEDED/patch.diff || { echo "cannot apply patch"; exit 2; }; fi
git -C /repo apply --check "$wt/SEEDED/patch.diff" || { echo "patch does not apply to /repo HEAD"; exit 2; }
echo "== baseline tests with the patch"
t=$(timeout 1500 cargo test --workspace --no-fail-fast --offline 2>&1 | grep -E "^test result" | awk '{p+=$4; f+=$6} END {print p" passed "f" failed"}')
echo "   $t"
echo "== demonstration with the patch (must fail)"
( timeout 1500 bash SEEDED/demo/run.sh > /tmp/demo_with.$$ 2>&1 ); with=$?
echo "   exit $with"
git apply -R SEEDED/patch.diff
echo "== demonstration without the patch (must pass)"
( timeout 1500 bash SEEDED/demo/run.sh > /tmp/demo_without.$$ 2>&1 ); without=$?
echo "   exit $without"
git apply SEEDED/patch.diff
ok=0
[ "$t" = "43 passed 0 failed" ] && [ $with -ne 0 ] && [ $without -eq 0 ] && ok=1
if [ $ok -eq 1 ]; then
  d=/verif/seeded/$name; mkdir -p $d; rm -rf $d/demo
  cp SEEDED/patch.diff $d/patch.diff; cp -r SEEDED/demo $d/demo
  python3 - "$d" "$t" "$with" "$without" <<'PY'
import json,sys
d,t,w,wo=sys.argv[1:5]
m=json.load(open('SEEDED/meta.json'))
m['confirmed']={'baseline_tests_with_patch':t,'demo_exit_with_patch':int(w),'demo_exit_without_patch':int(wo),'how':'tools/confirm_seeded.sh in the scratch worktree (patch checked to apply to /repo HEAD)'}
json.dump(m,open(d+'/meta.json','w'),indent=1)
PY
  echo "CONFIRMED -> $d"
else
  echo "NOT CONFIRMED (tests: $t, demo with: $with, without: $without)"; tail -5 /tmp/demo_with.$$; tail -5 /tmp/demo_without.$$
fi
rm -f /tmp/demo_with.$$ /tmp/demo_without.$$
[ $ok -eq 1 ]
