#!/usr/bin/env python3
"""tools/mutants.py — sensitivity run: every patch under /verif/mutants and /verif/seeded is
applied to /repo in turn; the 43 baseline tests must still pass with it (guard off) and the
check of the targeted property must report a violation. Results: /verif/sensitivity/results.json.
/repo is restored after every patch. Not a registered check (it edits /repo's working tree)."""
import json, os, subprocess, sys, time, glob, re

TARGETS = {
 "R1-hash-ignores-rights": ["C03", "C07", "C18"],
 "R2-terminal-root-assert": ["C04"],
 "R3-eval-shortcut-in-check": ["C06", "C17"],
 "R4-no-poll-between-iterations": ["C04", "C07"],
 "R5-ucinewgame-keeps-artifact": ["C18"],
 "R6-uci-byte-slicing": ["C14"],
 "R7-fen-cursor-overflow": ["C14"],
 "R8-unplayable-fen-accepted": ["C14"],
 "R9-root-entry-not-restored": ["C03", "C04"],
 "R10-root-answered-from-repeating-entry": ["C17"],
 "R11-root-restore-overwrites-newer-entry": ["C06", "C03"],
 "R12-counters-overflow": ["C14"],
 "M2-poll-only-at-exactly-10000": ["C04"],
 "M3-insert-keeps-deeper-entry": ["C15"],
 "M4-writer-not-joined": ["C07"],
 "M6-jitter-from-entropy-at-depth3": ["C19"],
 "M7-find-routes-by-high-bits": ["C15"],
 "M8-find-compares-low-32-bits": ["C15"],
 "M9-replaced-counts-as-new-slot": ["C15"],
 "M11-stop-does-not-collect": ["C07"],
 "M12-sizing-exceeds-budget": ["C15"],
}

def sh(cmd, cwd=None, timeout=3600):
    p = subprocess.run(cmd, shell=True, cwd=cwd, capture_output=True, text=True, timeout=timeout)
    return p.returncode, p.stdout + p.stderr

def main():
    only = sys.argv[1:]
    patches = []
    for f in sorted(glob.glob("/verif/mutants/*.diff")):
        name = os.path.basename(f)[:-5]
        patches.append((name, f, TARGETS.get(name, [])))
    for d in sorted(glob.glob("/verif/seeded/*/")):
        name = os.path.basename(d.rstrip("/"))
        meta = json.load(open(d + "meta.json"))
        patches.append((name, d + "patch.diff", [meta.get("breaks", meta.get("property"))]))
    out_path = "/verif/sensitivity/results.json"
    results = json.load(open(out_path)) if os.path.exists(out_path) else {}
    for name, path, props in patches:
        if only and name not in only:
            continue
        rc, o = sh("git status --porcelain --untracked-files=no", cwd="/repo")
        if o.strip():
            print("refusing: /repo has uncommitted changes"); sys.exit(2)
        rc, o = sh(f"git apply {path}", cwd="/repo")
        if rc != 0:
            results[name] = {"applies": False, "note": o.strip()[:200]}
            print(name, "does not apply"); continue
        entry = {"applies": True, "patch": path, "checks": {}}
        t0 = time.time()
        rc, o = sh("cargo test --workspace --no-fail-fast --offline 2>&1 | grep -E '^test result'", cwd="/repo", timeout=3000)
        passed = sum(int(m) for m in re.findall(r"(\d+) passed", o)); failed = sum(int(m) for m in re.findall(r"(\d+) failed", o))
        entry["baseline_tests"] = {"passed": passed, "failed": failed, "secs": round(time.time() - t0)}
        for p in props:
            t0 = time.time()
            rc, o = sh(f"./check {p} --no-evidence", cwd="/verif", timeout=3000)
            sigs = re.findall(r"signature: (\S+)(?: \(seen in (\d+) of)?", o)
            runs = re.findall(r"\[wsim\] \S+ quick: (\d+) runs in ([0-9.]+)s", o)
            entry["checks"][p] = {"exit": rc, "detected": rc == 1, "secs": round(time.time() - t0), "signatures": [s[0] for s in sigs], "violating_runs": [int(s[1]) for s in sigs if s[1]], "runs": int(runs[0][0]) if runs else None}
            print(name, p, "exit", rc, [s[0] for s in sigs][:2], flush=True)
        sh("git checkout -q -- .", cwd="/repo")
        results[name] = entry
        json.dump(results, open(out_path, "w"), indent=1)
    sh("cargo build --release --offline", cwd="/verif/sim")
    print("done")

if __name__ == "__main__":
    main()
