#!/bin/bash
# tools/thorough_bg.sh [IDs...] — meant for `vp run --with-repo -- tools/thorough_bg.sh C03 C04 ...`
# Runs thorough tiers from a snapshot of /verif against a snapshot of /repo ($VP_RUN_REPO), so that
# editing /repo or /verif meanwhile does not disturb it. Exploration only: evidence that is committed
# always comes from ./check in /verif against /repo itself.
set -u
here=$(pwd)
repo=${VP_RUN_REPO:-/repo}
sed -i "s#/repo/#$repo/#g" sim/core/Cargo.toml sim/engine/Cargo.toml
sed -i "s#target-dir = \"/verif/target\"#target-dir = \"$here/target\"#" sim/.cargo/config.toml
rm -f sim/book; ln -s $repo/book sim/book
( cd sim && CARGO_NET_OFFLINE=true cargo build --release --offline 2>&1 | tail -1 )
export WSIM_VERIF_DIR=$here
for id in "$@"; do
  echo "=== $id thorough $(date)"
  ./target/release/wsim check $id --tier thorough --jobs ${JOBS:-8} 2>&1 | grep -vE "test panicked"
  echo "=== $id exit $? $(date)"
done
