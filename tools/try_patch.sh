#!/bin/bash
# tools/try_patch.sh <patch.diff> <ID> [runs] [extra wsim args]
# Applies a patch to /repo, runs the check for <ID> without touching the evidence files,
# and reverts /repo. Prints the check's verdict lines and exit status.
set -u
patch=$1; id=$2; runs=${3:-0}; shift; shift; shift || true
cd /repo || exit 2
if [ -n "$(git status --porcelain --untracked-files=no)" ]; then echo "refusing: /repo has uncommitted changes"; exit 2; fi
git apply "$patch" || { echo "patch does not apply"; exit 2; }
args="--no-evidence"; [ "$runs" != "0" ] && args="$args --runs $runs"
start=$(date +%s)
( cd /verif && ./check "$id" $args "$@" ) > /tmp/try_patch.$$.log 2>&1
code=$?
end=$(date +%s)
git -C /repo checkout -q -- .
# leave the binary in step with the (reverted) tree
( cd /verif/sim && cargo build --release --offline > /dev/null 2>&1 )
grep -E "^VIOLATION|^KNOWN|^HARNESS|signature:|^\[wsim\] C|cross-process" /tmp/try_patch.$$.log | cut -c1-260
echo "RESULT patch=$(basename "$patch") property=$id exit=$code secs=$((end-start))"
rm -f /tmp/try_patch.$$.log
exit $code
